"""bin/vcheck <id> --replay <file>: re-execute a recorded violation on the current tree."""
from . import core


def run(prop, path):
    import os
    path = os.path.abspath(path)
    ctx = core.Ctx(prop, "quick", 1)
    try:
        p = ctx.vdrive(["replayone", "-file", path], check=False)
        print(p.stdout, end="")
        if p.returncode != 0:
            print(p.stderr)
            return 2
        return 0
    except core.Infra as e:
        print("INFRASTRUCTURE FAILURE:", e)
        return 2
    finally:
        ctx.cleanup()
