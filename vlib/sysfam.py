"""System family: C03 (first-match path), C14 (extensions), C06 (concurrency).

Specifications: Sys.tla (API as a concurrent system over an abstract skeleton of the
tree), TraceConc.tla (free-running traces against Sys), TraceTree.tla (sequential traces
against the real 180-node tree).
"""
import glob
import json
import os
import re

from . import core
from .jsonfam import _set_const

CORPUS = os.path.join(core.VERIF, "corpus")


def _tree_violations(results, prop):
    out = []
    for r in results:
        lines = None
        for t in r["tuples"]:
            if t[0] != "VIOLATION" or t[1] != prop:
                continue
            if lines is None:
                with open(r["trace_file"]) as f:
                    lines = f.readlines()
            rec = json.loads(lines[t[2] - 1])
            what = t[3] if len(t) > 3 else ""
            v = dict(property=prop, kind="trace:" + what, limit=rec.get("limit"),
                     input_text="sample=%s entry=%s limit=%s" % (rec.get("sample"), rec.get("entry"), rec.get("limit")),
                     detail="TraceTree.tla: %s; result %s chain %s" % (what, rec.get("full"), rec.get("chain")),
                     record={k: rec[k] for k in rec if k not in ("consults",)})
            v["key"] = "%s|%s|%s|%s|%s" % (prop, what, rec.get("sample"), rec.get("entry"), rec.get("limit"))
            out.append(v)
    return out


def _replay_violations(rep, prop):
    return [v for v in rep["violations"] if v["property"] == prop]


def _seq_replay(ctx, quick, cov):
    cfg = "MC_Sys_seq_q.cfg" if quick else "MC_Sys_seq.cfg"
    r = ctx.tlc_expect_ok("MC_Sys.tla", cfg, timeout=7000, xmx="24g")
    rp = os.path.join(ctx.scratch, "seqreplay.json")
    ctx.vdrive(["sysreplay", "-in", r["out"], "-out", rp, "-seed", ctx.seed])
    os.remove(r["out"])
    rep = ctx.report(rp)
    cov["sequential_histories"] = dict(config=cfg, behaviours=rep["extra"]["behaviours"], distinct_states=r["distinct"],
                                       with_two_or_more_extensions=rep["extra"]["with_two_or_more_extensions"],
                                       detections_after_an_extension=rep["extra"]["detections_after_an_extension"], drift=rep["drift"])
    return rep


def _sim_replay(ctx, cov, procs, maxops, num, depth, race, tag):
    cfgp = os.path.join(ctx.scratch, "MC_Sys_sim.cfg")
    s = open(cfgp).read()
    s = re.sub(r"Procs <- \w+", "Procs <- %s" % procs, s)
    s = re.sub(r"MaxOps = \d+", "MaxOps = %d" % maxops, s)
    if procs == "P1" and ctx.seed % 2 == 1:
        s = s.replace("DupAt = 99", "DupAt = 2")     # the SECOND extension re-uses the first one's string: a third can be attached to either
    name = "MC_Sys_sim_%s.cfg" % tag
    open(os.path.join(ctx.scratch, name), "w").write(s)
    workers = 4
    r = ctx.tlc("MC_Sys.tla", name, workers=workers, timeout=3000, tag="sim_" + tag,
                extra=["-simulate", "num=%d" % (num // workers), "-depth", str(depth), "-seed", str(ctx.seed)])
    if r["rc"] != 0 or r["errors"]:
        raise core.Infra("TLC simulation failed: %s" % (r["errors"][:3] or core.tail(r["out"])))
    rp = os.path.join(ctx.scratch, "simreplay_%s.json" % tag)
    env = {"GORACE": "log_path=%s exitcode=0" % os.path.join(ctx.scratch, "race-" + tag)} if race else None
    pr = ctx.vdrive(["sysreplay", "-in", r["out"], "-out", rp, "-seed", ctx.seed], race=race, env=env, check=False)
    os.remove(r["out"])
    if pr.returncode != 0:
        cv = _crash_violation(ctx, pr, "sysreplay " + tag)     # raises Infra unless the repository's code killed the process
        return dict(violations=[cv], evaluations=0, distinct_nontrivial=0, drift=0, samples=[], extra=dict(behaviours=0, gated_concurrent=0, with_two_or_more_extensions=0))
    rep = ctx.report(rp)
    cov["simulated_" + tag] = dict(procs=procs, max_ops=maxops, behaviours=rep["extra"]["behaviours"], gated=rep["extra"]["gated_concurrent"],
                                   drift=rep["drift"], drift_samples=rep.get("drift_samples", [])[:3])
    return rep


def _race_reports(ctx):
    out = []
    for p in glob.glob(os.path.join(ctx.scratch, "race-*")):
        txt = open(p, errors="replace").read()
        for block in txt.split("=================="):
            if "DATA RACE" not in block:
                continue
            repo = os.path.realpath(core.REPO) + "/"
            frames = [ln.strip() for ln in block.splitlines() if repo in ln]
            if frames:
                out.append(dict(frames=frames[:6], text=block[:3000]))
    return out


def _treetrace(ctx, quick, cov, ext_rounds):
    tdir = os.path.join(ctx.scratch, "tree")
    os.makedirs(tdir, exist_ok=True)
    rp = os.path.join(ctx.scratch, "treetrace.json")
    ctx.vdrive(["treetrace", "-outdir", tdir, "-corpus", CORPUS, "-seed", ctx.seed, "-out", rp, "-shards", core.NCPU,
                "-cuts", 6 if quick else 60, "-ext-rounds", ext_rounds])
    rep = ctx.report(rp)
    results = ctx.validate_traces("TraceTree.tla", "TraceTree.cfg", sorted(glob.glob(os.path.join(tdir, "*.ndjson"))))
    cov["real_tree_traces"] = dict(detections=rep["evaluations"], corpus_samples=rep["extra"]["samples_in_corpus"],
                                   distinct_results=rep["extra"]["distinct_results"],
                                   detections_with_two_or_more_accepting_consults=rep["distinct_nontrivial"], extension_rounds=ext_rounds)
    return rep, results


def _selftest_tree(ctx, results):
    """Binding demonstration: drop one ancestor from a logged result chain; TraceTree.tla must object."""
    src = results[0]["trace_file"]
    lines = open(src).readlines()
    out = []
    done = False
    for ln in lines[:400]:
        if not done and '"ev":"detect"' in ln:
            rec = json.loads(ln)
            if len(rec["chain"]) >= 3 and not rec["err"]:
                rec["chain"] = rec["chain"][:1] + rec["chain"][2:]      # drop one ancestor from the logged result
                ln = json.dumps(rec) + "\n"
                done = True
        out.append(ln)
    if not done:
        return "skipped (no result with three levels in the first records)"
    tf = os.path.join(ctx.scratch, "selftest-tree.ndjson")
    open(tf, "w").writelines(out)
    r = ctx.tlc("TraceTree.tla", "TraceTree.cfg", workers=1, env={"TRACE": tf}, xmx="3g", tag="selftest-tree")
    if not any(t[0] == "VIOLATION" and t[1] == "C03" for t in r["tuples"]):
        raise core.Infra("self-test: a corrupted result chain was NOT rejected by TraceTree.tla")
    return "corrupted result chain rejected"


def c03(ctx):
    prop = "C03"
    quick = ctx.tier == "quick"
    ctx.build_harness()
    cov = {}
    srep = _seq_replay(ctx, quick, cov)
    trep, results = _treetrace(ctx, quick, cov, 2 if quick else 6)
    cov["binding_selftest"] = _selftest_tree(ctx, results)
    # the repository's own test suite, run with the hooks on, validated by the same trace specification
    import subprocess
    st = os.path.join(ctx.scratch, "suite.ndjson")
    env = dict(os.environ, **core.GOENV)
    env["VERIF_TRACE"] = st
    cmd = ["go", "test", "-tags", "verif", "-vet=off", "-count=1"] + (["-skip", "TestConcurrent"] if quick else []) + ["."]
    p = subprocess.run(cmd, cwd=core.REPO, env=env, capture_output=True, text=True, timeout=1800)
    if p.returncode != 0 or not os.path.exists(st):
        raise core.Infra("the repository's suite does not pass with -tags verif: " + (p.stdout + p.stderr)[-600:])
    sres = ctx.validate_traces("TraceTree.tla", "TraceTree.cfg", [st], timeout=3600, xmx="6g")
    results = results + sres
    cov["suite_trace"] = dict(records=core.count_lines(st), tests="all" if not quick else "all but TestConcurrent")
    violations = _replay_violations(srep, prop) + _tree_violations(results, prop)
    from .textfam import clonehist
    ch = clonehist(ctx, 2 if quick else 3)
    violations += [v for v in ch["violations"] if v["property"] == prop]
    cov["clone_histories"] = dict(histories=ch["extra"]["histories"], detections=ch["evaluations"], drift=ch["drift"],
                                  rule="CloneHist.tla: every history of detections / extensions, each in a fresh process; the reported chain must be the path of the (extended) tree whatever was detected before")
    if not quick:
        violations += _replay_violations(_sim_replay(ctx, cov, "P1", 6, 40000, 60, False, "seq6"), prop)
    cov.update(
        evaluations=srep["evaluations"] + trep["evaluations"],
        distinct_nontrivial=trep["distinct_nontrivial"] + srep["distinct_nontrivial"],
        rule="(a) every history of <= 3 API calls of Sys.tla (Detect x {jar, JSON array, binary} / SetLimit / Extend at any attach point with any verdict set / Lookup), TLC-exhaustive, replayed on the real package and compared with the first-match path operator FMP; (b) corpus (215 test-table inputs + 24 polyglots) x limits {0,1,3072,2^32-1,len-1,len,len+1,random cuts} x entry points, on the built-in tree and on trees enlarged by random extensions, each detection's consult events validated by TraceTree.tla (order, first match, leaf, chain, independent recheck of ancestors and children). non-trivial = detections in which at least two consulted detectors accepted, or that follow an Extend",
        exhaustive=True,
        samples=srep["samples"][:4] + trep["samples"][:2],
    )
    return core.finish(ctx, violations, cov, ["extension detectors are table-driven by the first byte of the header", "TraceTree trusts the pointer identity of tree nodes reported by the hooks; the recheck events guard against a hook that lies"])


def c14(ctx):
    prop = "C14"
    quick = ctx.tier == "quick"
    ctx.build_harness()
    cov = {}
    srep = _seq_replay(ctx, quick, cov)
    sim = _sim_replay(ctx, cov, "P1", 5 if quick else 6, 8000 if quick else 100000, 60, False, "seq5")
    trep, results = _treetrace(ctx, quick, cov, 3 if quick else 8)
    violations = _replay_violations(srep, prop) + _replay_violations(sim, prop) + _tree_violations(results, prop)
    cov.update(
        evaluations=srep["evaluations"] + sim["evaluations"] + trep["evaluations"],
        distinct_nontrivial=srep["extra"]["with_two_or_more_extensions"] + sim["extra"]["with_two_or_more_extensions"],
        rule="all histories of <= 3 calls (TLC exhaustive; model invariants ExtensionsInFront, ExtensionWins, NonInterference, LookupFindsExtensions, PathSound) and simulated histories of 5-6 calls, replayed on the real package: result chains, Lookup result and parent, final children order of every skeleton node, values returned earlier re-read after every later call; plus random extensions on the real tree validated by TraceTree.tla. non-trivial = histories with at least two extensions",
        exhaustive=True,
        samples=srep["samples"][:3] + sim["samples"][:3],
    )
    return core.finish(ctx, violations, cov, ["attach points: root (package-level and method), zip, jar (leaf), text/plain, json, earlier extensions"])


def _apalache_rwlock(ctx):
    """Inductive invariant of the lock discipline (RWLock.tla) with Apalache: unbounded in the
    number of steps for 5 processes. Best effort: a tool failure is reported, not fatal."""
    import subprocess
    steps = [("Init => IndInv", ["--init=Init", "--inv=IndInv", "--length=0"]),
             ("IndInv /\\ Next => IndInv'", ["--init=IndInv", "--inv=IndInv", "--length=1"]),
             ("IndInv => NoWriterWhileReading", ["--init=IndInv", "--inv=NoWriterWhileReading", "--length=0"])]
    out = []
    for name, args in steps:
        try:
            p = subprocess.run(["apalache-mc", "check", "--cinit=CInit"] + args + ["--out-dir=" + os.path.join(ctx.scratch, "apalache-out"), "RWLock.tla"],
                               cwd=ctx.scratch, capture_output=True, text=True, timeout=300)
            ok = "EXITCODE: OK" in p.stdout
            if not ok and "EXITCODE: ERROR (12)" in p.stdout:
                raise core.Infra("Apalache found a counterexample to the inductive invariant of RWLock.tla (%s)" % name)
            out.append(dict(obligation=name, discharged=ok))
        except (OSError, subprocess.TimeoutExpired) as e:
            out.append(dict(obligation=name, discharged=False, note=str(e)[:200]))
    return out


def _crash_violation(ctx, p, what):
    """A harness process killed by the code under test (fatal error / panic with frames of the
    repository) is a C06 observation, not an infrastructure failure."""
    txt = (p.stdout or "") + (p.stderr or "")
    repo = os.path.realpath(core.REPO)
    fatal = [ln for ln in txt.splitlines() if ln.startswith("fatal error:") or ln.startswith("panic:")]
    if p.returncode != 0 and fatal and (repo + "/" in txt or "gabriel-vasile/mimetype" in txt):
        frames = [ln.strip() for ln in txt.splitlines() if repo + "/" in ln][:6]
        return dict(property=ctx.prop, kind="process-crash", limit=None, key=ctx.prop + "|crash|" + fatal[0][:80],
                    input_text="%s: %s" % (what, fatal[0]), detail="\n".join(fatal[:2] + frames))
    if p.returncode != 0:
        raise core.Infra("vdrive %s failed (exit %d):\n%s" % (what, p.returncode, txt[-3000:]))
    return None


def c06(ctx):
    prop = "C06"
    quick = ctx.tier == "quick"
    ctx.build_harness()
    ctx.build_harness(race=True)
    cov = {}
    cov["apalache_inductive_invariant"] = _apalache_rwlock(ctx)
    # 1. design: lock discipline + linearizability, all interleavings
    runs = []
    for cfg in (["MC_Sys_conc_q.cfg", "MC_Sys_conc3_q.cfg", "MC_Sys_live.cfg"] if quick else ["MC_Sys_conc.cfg", "MC_Sys_conc3_q.cfg", "MC_Sys_live.cfg"]):
        r = ctx.tlc_expect_ok("MC_Sys.tla", cfg, timeout=7000, xmx="24g")
        runs.append(dict(config=cfg, distinct=r["distinct"]))
    cov["design_runs"] = runs
    # 2. gate-driven replay of TLC interleavings, race detector on
    g2 = _sim_replay(ctx, cov, "P2", 3, 800 if quick else 20000, 60, True, "p2")
    g3 = _sim_replay(ctx, cov, "P3", 2, 800 if quick else 20000, 60, True, "p3")
    # 3. free-running traced executions validated by TraceConc
    tdir = os.path.join(ctx.scratch, "conc")
    os.makedirs(tdir)
    rp = os.path.join(ctx.scratch, "conctrace.json")
    ctx.vdrive(["conctrace", "-outdir", tdir, "-runs", 16 if quick else 128, "-goroutines", 8, "-ops", 150 if quick else 400, "-seed", ctx.seed, "-out", rp])
    crep = ctx.report(rp)
    # bursts: every goroutine starts with an Extend on the same parent, released together, then looks every extension up
    bdir = os.path.join(ctx.scratch, "burst")
    os.makedirs(bdir)
    rpb = os.path.join(ctx.scratch, "burst.json")
    ctx.vdrive(["conctrace", "-burst", "-outdir", bdir, "-runs", 24 if quick else 200, "-goroutines", 8, "-ops", 6, "-maxext", 12, "-seed", ctx.seed + 3, "-out", rpb])
    brep = ctx.report(rpb)
    crep["evaluations"] += brep["evaluations"]
    crep["extra"]["runs"] += brep["extra"]["runs"]
    crep["extra"]["events"] += brep["extra"]["events"]
    for bf in sorted(glob.glob(os.path.join(bdir, "*.ndjson"))):
        os.rename(bf, os.path.join(tdir, "burst-" + os.path.basename(bf)))
    files = sorted(glob.glob(os.path.join(tdir, "*.ndjson")))
    violations = _replay_violations(g2, prop) + _replay_violations(g3, prop)
    # rejected traces are C06 violations (the trace itself is the replay artefact)
    results = []

    def one(tf):
        tag = "trace-" + os.path.basename(tf).replace(".ndjson", "")
        r = ctx.tlc("MC_TraceConc.tla", "TraceConc.cfg", workers=1, env={"TRACE": tf}, timeout=1800, xmx="3g", tag=tag)
        r["trace_file"] = tf
        return r
    import concurrent.futures
    with concurrent.futures.ThreadPoolExecutor(max_workers=core.NCPU) as ex:
        results = list(ex.map(one, files))
    rejected = 0
    for r in results:
        info = [t for t in r["tuples"] if t[0] == "INFO" and t[1] == "rejected_at"]
        if info:
            rejected += 1
            at = info[0][2]
            lines = open(r["trace_file"]).readlines()
            keep = os.path.join(core.REPLAYS, "C06-trace-%d-%s" % (ctx.seed, os.path.basename(r["trace_file"])))
            os.makedirs(core.REPLAYS, exist_ok=True)
            open(keep, "w").writelines(lines)
            ev = json.loads(lines[at - 1]) if at - 1 < len(lines) else {}
            v = dict(property=prop, kind="trace-rejected", limit=None, input_text="event %d: %s" % (at, ev),
                     detail="TraceConc.tla cannot consume event %d of a free-running execution: no placement of the lock-free steps explains it (trace kept at %s)" % (at, keep))
            v["key"] = "C06|trace-rejected|%s|%s" % (ev.get("ev"), ev.get("g"))
            violations.append(v)
        elif r["rc"] != 0 or r["errors"]:
            raise core.Infra("TraceConc failed on %s: %s" % (r["trace_file"], r["errors"][:3] or core.tail(r["out"])))
        else:
            ctx.traces_validated += 1
            ctx.trace_records += len(open(r["trace_file"]).readlines())
    # binding demonstration: corrupt one logged result / drop one lock event; both must be rejected
    if files and not rejected:
        lines = [json.loads(x) for x in open(files[0])]
        idx = [i for i, e in enumerate(lines) if e["ev"] == "detect.ret"]
        jdx = [i for i, e in enumerate(lines) if e["ev"] == "ext.locked"]
        tests = []
        if idx:
            c1 = [dict(e) for e in lines]
            c1[idx[len(idx) // 2]]["path"] = c1[idx[len(idx) // 2]]["path"] + ["tj"]
            tests.append(("corrupted result", c1))
        if jdx:
            tests.append(("dropped ext.locked event", [e for i, e in enumerate(lines) if i != jdx[0]]))
        outcome = []
        for name, evs in tests:
            tf = os.path.join(ctx.scratch, "selftest-conc.ndjson")
            open(tf, "w").write("\n".join(json.dumps(e) for e in evs) + "\n")
            r = ctx.tlc("MC_TraceConc.tla", "TraceConc.cfg", workers=1, env={"TRACE": tf}, xmx="3g", tag="selftest-conc")
            if not any(t[0] == "INFO" and t[1] == "rejected_at" for t in r["tuples"]):
                raise core.Infra("self-test: trace with %s was NOT rejected by TraceConc.tla" % name)
            outcome.append(name + ": rejected")
        cov["binding_selftest"] = outcome
    # 4. untraced stress under the race detector (no hook installed: no extra synchronisation)
    rp2 = os.path.join(ctx.scratch, "concrace.json")
    pr = ctx.vdrive(["conctrace", "-notrace", "-runs", 8 if quick else 64, "-goroutines", 8, "-ops", 400 if quick else 2000, "-seed", ctx.seed + 7, "-out", rp2],
                    race=True, env={"GORACE": "log_path=%s exitcode=0" % os.path.join(ctx.scratch, "race-stress")}, check=False)
    cv = _crash_violation(ctx, pr, "conctrace -notrace")
    if cv:
        violations.append(cv)
        srep = dict(evaluations=0, extra={})
    else:
        srep = ctx.report(rp2)
    # 5. corpus-wide stress: concurrent results must equal the sequential ones; fresh charset labels; -race
    rp3 = os.path.join(ctx.scratch, "concstress.json")
    # cold starts: the first detections of a fresh process are concurrent (several processes)
    cold = 0
    for k in range(6 if quick else 60):
        rpc = os.path.join(ctx.scratch, "cold%d.json" % k)
        pc_ = ctx.vdrive(["coldstart", "-out", rpc] + (["-first-extend"] if k % 2 == 1 else []), race=True, env={"GORACE": "log_path=%s exitcode=0" % os.path.join(ctx.scratch, "race-cold%d" % k)}, check=False)
        cvc = _crash_violation(ctx, pc_, "coldstart")
        if cvc:
            violations.append(cvc)
            continue
        crc = ctx.report(rpc)
        cold += crc["evaluations"]
        violations += [v for v in crc["violations"] if v["property"] == prop]
    cov["cold_start_detections"] = cold
    pr = ctx.vdrive(["concstress", "-corpus", CORPUS, "-rounds", 30 if quick else 400, "-per", 300, "-goroutines", 12, "-seed", ctx.seed + 11, "-out", rp3],
                    race=True, env={"GORACE": "log_path=%s exitcode=0" % os.path.join(ctx.scratch, "race-corpus")}, timeout=7000, check=False)
    cv = _crash_violation(ctx, pr, "concstress")
    if cv:
        violations.append(cv)
    else:
        xrep = ctx.report(rp3)
        violations += [v for v in xrep["violations"] if v["property"] == prop]
        srep["evaluations"] += xrep["evaluations"]
        cov["corpus_stress"] = dict(calls=xrep["evaluations"], samples=xrep["extra"]["samples"], fresh_charset_labels=xrep["extra"]["fresh_charset_labels"])
    races = _race_reports(ctx)
    seen = set()
    for rc in races:
        key = "C06|race|" + "|".join(re.sub(r"\s+", " ", f).split(" ")[0] for f in rc["frames"][:2])
        if key in seen:
            continue
        seen.add(key)
        violations.append(dict(property=prop, kind="data-race", key=key, limit=None, input_text=" ; ".join(rc["frames"][:4]), detail=rc["text"]))
    cov.update(
        evaluations=g2["evaluations"] + g3["evaluations"] + crep["evaluations"] + srep["evaluations"],
        distinct_nontrivial=g2["extra"]["gated_concurrent"] + g3["extra"]["gated_concurrent"],
        rule="design: all interleavings of 2 goroutines x 2 calls and 3 x 1 over the Sys.tla menu (RWExcl, reader/writer accounting, TreeStableUnderRLock, PublishedComplete, Linearizable, LookupLinearizable; termination under fairness). code: TLC-simulated interleavings (2 goroutines x 3 calls, 3 x 2) replayed with the hook points as scheduler gates on a -race build, results compared at every return; free-running executions (8 goroutines, random mix of Detect/DetectReader/DetectFile/SetLimit/Extend with caller-owned alias slices of capacity len, len+1, len+8/Lookup) logged at the hook points and validated by TraceConc.tla with the atomic load/store as silent steps; untraced stress under the race detector: bursts of Extends on one parent, cold starts in fresh processes (first detections concurrent; the first Extend of the process racing with detections), a corpus-wide stress whose concurrent results must equal the sequential ones (inputs shared between goroutines, fresh charset labels), and single results shared by all goroutines for their first String / Is / Parent calls. non-trivial = gated concurrent behaviours replayed",
        exhaustive=False,
        free_running=dict(runs=crep["extra"]["runs"], events=crep["extra"]["events"], rejected_traces=rejected),
        race_stress=dict(ops=srep.get("evaluations", 0), race_reports=len(races)),
        samples=g2["samples"][:3] + crep["samples"][:4],
    )
    return core.finish(ctx, violations, cov, ["Go race detector and sync package trusted", "gate-driven replay only schedules interleavings the model allows; lock removal is left to the free-running traces and the race detector"])


REGISTRY = {"C03": c03, "C14": c14, "C06": c06}


def c05(ctx):
    prop = "C05"
    quick = ctx.tier == "quick"
    ctx.build_harness()
    if not quick:
        _set_const(ctx, "MC_Reader.cfg", "MaxData", 6)
        _set_const(ctx, "MC_Reader.cfg", "MaxLimit", 7)
    r = ctx.tlc_expect_ok("MC_Reader.tla", "MC_Reader.cfg", timeout=6000, xmx="24g")
    live = ctx.tlc_expect_ok("MC_Reader.tla", "MC_Reader_live.cfg", workers=8, timeout=3000)
    rp = os.path.join(ctx.scratch, "readervec.json")
    ctx.vdrive(["readervec", "-in", r["out"], "-out", rp])
    os.remove(r["out"])
    rep = ctx.report(rp)
    tdir = os.path.join(ctx.scratch, "reader")
    os.makedirs(tdir)
    rp2 = os.path.join(ctx.scratch, "readertrace.json")
    ctx.vdrive(["readertrace", "-outdir", tdir, "-corpus", CORPUS, "-seed", ctx.seed, "-out", rp2, "-shards", core.NCPU, "-chunkings", 4 if quick else 40])
    trep = ctx.report(rp2)
    rfiles = sorted(glob.glob(os.path.join(tdir, "*.ndjson")))
    results = ctx.validate_traces("TraceReader.tla", "TraceReader.cfg", rfiles)

    def swallow(rec):      # a run whose fault surfaced, logged as if no error had been returned
        if rec.get("ev") == "end" and rec.get("err") == "Fault":
            rec["err"] = "nil"
            return True
        return False
    selftest05 = core.binding_selftest(ctx, "TraceReader.tla", "TraceReader.cfg", rfiles[0], swallow, "C05", "a surfaced read fault is logged as a nil error")
    violations = [v for v in rep["violations"] if v["property"] == prop]
    for res in results:
        lines = None
        for t in res["tuples"]:
            if t[0] == "VIOLATION" and t[1] == prop:
                if lines is None:
                    lines = open(res["trace_file"]).readlines()
                # find the begin record of this case
                i = t[2] - 1
                while i > 0 and '"ev":"begin"' not in lines[i]:
                    i -= 1
                begin = json.loads(lines[i])
                v = dict(property=prop, kind="trace:" + t[3], limit=begin.get("limit"), input_text="sample=%s dlen=%s limit=%s fault=%s" % (begin.get("sample"), begin.get("dlen"), begin.get("limit"), begin.get("fault")),
                         detail="TraceReader.tla: %s at event %d: %s" % (t[3], t[2], lines[t[2] - 1].strip()))
                v["key"] = "C05|%s|%s|%s|%s" % (t[3], begin.get("sample"), begin.get("limit"), begin.get("fault"))
                violations.append(v)
    cov = dict(
        binding_selftest=selftest05,
        evaluations=rep["evaluations"] + trep["evaluations"],
        distinct_nontrivial=rep["extra"]["with_fault_before_header_complete"] + trep["extra"]["cases_with_surfaced_fault"],
        rule="model: data length 0..%s x limit 0..%s x injected fault at every offset (or none) x every reply schedule of a conforming reader (short reads, (0,nil), EOF with or after the last bytes, fault with or after data); invariants ReadsStopAtLimit, NoFaultMeansPrefix, FaultSurfaces, OnlyInjected; termination under fairness. every behaviour is replayed with a scripted reader over 6 real payloads (the model's abstract byte = 2, 256 and 512 real bytes, so faults and limits also fall on 512-byte boundaries) comparing error identity, bytes consumed and the type with Detect on the same header; DetectFile / DetectReader(*os.File) / pipes on files of every size around the limit, readers that were already read from (bytes.Reader, strings.Reader, SectionReader, *os.File positioned at 1, 4, 9), procfs files (regular, size 0), inputs of 4095..32769 bytes under limits around 4096*2^k through three reader kinds; a missing path and a directory. traces: corpus x limits {0,1,7,3072,len-1,len,len+1} x chunking styles x faults at random offsets, every Read call logged and validated by TraceReader.tla. non-trivial = cases with a fault before the header was complete" % (("4", "5") if quick else ("6", "7")),
        exhaustive=True,
        drift=dict(count=rep["drift"], samples=rep.get("drift_samples", [])[:3]),
        samples=rep["samples"][:4] + trep["samples"][:4],
    )
    return core.finish(ctx, violations, cov, ["io.ReadFull / io.ReadAll as documented", "the injected error is a sentinel distinct from io.EOF and io.ErrUnexpectedEOF"])


def c04(ctx):
    prop = "C04"
    quick = ctx.tier == "quick"
    ctx.build_harness()
    cov = {}
    _set_const(ctx, "MC_Pool.cfg", "MaxCalls", 3 if quick else 4)
    r = ctx.tlc_expect_ok("MC_Pool.tla", "MC_Pool.cfg", timeout=6000, xmx="24g")
    rp = os.path.join(ctx.scratch, "hist.json")
    ctx.vdrive(["histreplay", "-in", r["out"], "-out", rp] + ([] if quick else ["-stride", "7"]), timeout=14000)
    os.remove(r["out"])
    rep = ctx.report(rp)
    trep, results = _treetrace(ctx, quick, cov, 1)
    violations = [v for v in rep["violations"] if v["property"] == prop] + _tree_violations(results, prop)
    # every <meta> attribute list of MC_Meta's tags mode, rendered and detected six times: the answers must agree
    mt = ctx.tlc_expect_ok("MC_Meta.tla", "MC_Meta_tags.cfg", tag="meta_tags_c04")
    rpm = os.path.join(ctx.scratch, "meta_tags_c04.json")
    ctx.vdrive(["metadocs", "-in", mt["out"], "-out", rpm])
    os.remove(mt["out"])
    mrep = ctx.report(rpm)
    violations += [v for v in mrep["violations"] if v["property"] == prop]
    cov.update(
        evaluations=rep["evaluations"] + trep["evaluations"],
        distinct_nontrivial=rep["extra"]["histories_with_a_call_started_from_dirty_pooled_state"],
        rule="model: Pool.tla (Get / reset / scan / drop oversized path / Put for the parser pool, Get / Reset for the bufio pool): no call of any history of <= %d calls over an 18-operation palette (query satisfied, aborted deep parse, path of 200 keys, truncated, scalar, empty, blank lines, CSV abandoned half-way with buffered leftovers, CSV ok, 1 MB array, NDJSON, binary, failing reader, SetLimit 0 / default) starts from inherited state. every history is replayed on the real package pinned to one P with the collector off (deterministic pool reuse) and again on 8 goroutines; each call must give the answer it gives with empty pools; the hooks count parses that really started from a dirty pooled state. traces: same header with different bytes beyond the limit and different spare capacity must give identical verdicts for every consulted node and identical results (TraceTree.tla memo), caller buffer compared before / after. non-trivial = histories in which some call started from dirty pooled state" % (3 if quick else 4),
        exhaustive=True,
        pool_reuse=dict(parses_total=rep["extra"]["parses_total"], parses_started_dirty=rep["extra"]["parses_started_dirty"],
                        csv_readers_taken=rep["extra"]["csv_readers_taken"], csv_readers_with_buffered_leftovers=rep["extra"]["csv_readers_with_buffered_leftovers"]),
        samples=rep["samples"][:5] + trep["samples"][:1],
    )
    return core.finish(ctx, violations, cov, ["pool reuse is observed through the hooks, not assumed"])


REGISTRY.update({"C05": c05, "C04": c04})
