"""Text family: C07 (text vs binary), C11 (sniffed charset), C12 (declared charset),
C02 (result shape), C15 (equality helpers).

Specifications: Charset.tla (+MC_Charset, TraceText), MetaPrescan.tla (+MC_Meta),
MediaType.tla, TraceTree.tla (C02 shape invariants on corpus detections).
"""
import glob
import json
import os

from . import core
from .jsonfam import _set_const
from .sysfam import _tree_violations, _treetrace, CORPUS


def _vio(rep, prop):
    return [v for v in rep["violations"] if v["property"] == prop]


def _text_trace_violations(results, prop):
    out = []
    for r in results:
        lines = None
        for t in r["tuples"]:
            if t[0] != "VIOLATION" or t[1] != prop:
                continue
            if lines is None:
                lines = open(r["trace_file"]).readlines()
            rec = json.loads(lines[t[2] - 1])
            raw = bytes(rec["raw"])
            v = dict(property=prop, kind="trace:" + (t[3] if len(t) > 3 else ""), input_hex=raw.hex(), input_text=repr(raw)[:300], limit=rec["limit"],
                     detail="TraceText.tla: %s; chain %s charset %r" % (t[3] if len(t) > 3 else "", rec["chain"], rec["cs"]))
            v["key"] = "%s|%s|%s|%s" % (prop, v["kind"], v["input_hex"], rec["limit"])
            out.append(v)
    return out


def _charset_vectors(ctx, cfg, maxlen, tag, variants):
    _set_const(ctx, cfg, "MaxLen", maxlen)
    r = ctx.tlc_expect_ok("MC_Charset.tla", cfg, timeout=6000, xmx="24g", tag=tag)
    rp = os.path.join(ctx.scratch, tag + ".json")
    ctx.vdrive(["charvec", "-in", r["out"], "-out", rp, "-seed", ctx.seed, "-variants", variants])
    os.remove(r["out"])
    rep = ctx.report(rp)
    if rep["oracle_mismatch"]:
        raise core.Infra("UTF-8 reference automaton disagrees with unicode/utf8: %s" % rep["oracle_samples"][:3])
    return r, rep


def _texttrace(ctx, quick):
    tdir = os.path.join(ctx.scratch, "text")
    os.makedirs(tdir, exist_ok=True)
    rp = os.path.join(ctx.scratch, "texttrace.json")
    args = ["texttrace", "-outdir", tdir, "-corpus", CORPUS, "-seed", ctx.seed, "-out", rp, "-shards", core.NCPU]
    if not quick:
        args.append("-full")
    ctx.vdrive(args)
    rep = ctx.report(rp)
    files = sorted(glob.glob(os.path.join(tdir, "*.ndjson")))
    results = ctx.validate_traces("TraceText.tla", "TraceText.cfg", files)

    def to_text(rec):      # a header with a binary byte and no mark, logged as if it had been called text
        if rec.get("chain") == ["application/octet-stream"] and any(b < 9 for b in rec["raw"]) and rec["raw"][:1] not in ([239], [254], [255], [0]):
            rec["chain"] = ["text/plain", "application/octet-stream"]
            rec["cs"] = ""
            return True
        return False

    def to_utf16(rec):     # plain ASCII text logged with a charset no clause of C11 allows
        if rec.get("chain", [""])[0] == "text/plain" and rec.get("cs") == "utf-8" and rec["raw"] and all(32 <= b < 127 for b in rec["raw"]):
            rec["cs"] = "windows-1252"
            return True
        return False
    rep["binding_selftest"] = dict(
        C07=core.binding_selftest(ctx, "TraceText.tla", "TraceText.cfg", files[0], to_text, "C07", "a binary header is logged with text/plain in its chain"),
        C11=core.binding_selftest(ctx, "TraceText.tla", "TraceText.cfg", files[0], to_utf16, "C11", "ASCII text is logged as windows-1252"))
    return rep, results


def c07(ctx):
    prop = "C07"
    quick = ctx.tier == "quick"
    ctx.build_harness()
    r, rep = _charset_vectors(ctx, "MC_Charset_c07.cfg", 4 if quick else 5, "vec_c07", 1 if quick else 2)
    trep, results = _texttrace(ctx, quick)
    violations = _vio(rep, prop) + _text_trace_violations(results, prop)
    cov = dict(
        binding_selftest=trep.get("binding_selftest"),
        evaluations=rep["evaluations"] + trep["evaluations"],
        vectors_replayed=rep["extra"]["vectors"],
        distinct_nontrivial=trep["distinct_nontrivial"],
        rule="vectors: every byte string of length <= %d over {a, 00 08 09 0B 0C 0E 1A 1B 1C 1F 20, EF BB BF FE FF} (TLC: magic.Text model = byte-class predicate), replayed through magic.Text and Detect at the default limit, with class-expanded variants, and at limit = len with binary / non-binary bytes appended beyond the limit. traces: {no mark, 5 marks, 3 truncated marks} x 14 text bodies (prose, JSON, HTML, XML, CSV, NDJSON, script, vCard, Latin-1, UTF-8, SVG, PHP, SRT, empty) x each of the 28 binary values and 7 neighbours x positions x limit relations (byte inside / first outside / far outside the header), corpus; validated by TraceText.tla. non-trivial = placements of a binary or neighbouring byte into a text body" % (4 if quick else 5),
        exhaustive=True,
        drift=rep["drift"],
        samples=rep["samples"][:4] + trep["samples"][:4],
    )
    return core.finish(ctx, violations, cov, ["binary data bytes as listed in the statement (WHATWG)"])


def c11(ctx):
    prop = "C11"
    quick = ctx.tier == "quick"
    ctx.build_harness()
    r, rep = _charset_vectors(ctx, "MC_Charset_c11.cfg", 4 if quick else 5, "vec_c11", 1 if quick else 2)
    trep, results = _texttrace(ctx, quick)
    violations = _vio(rep, prop) + _text_trace_violations(results, prop)
    cov = dict(
        binding_selftest=trep.get("binding_selftest"),
        evaluations=rep["evaluations"] + trep["evaluations"],
        vectors_replayed=rep["extra"]["vectors"],
        distinct_nontrivial=rep["distinct_nontrivial"],
        rule="vectors: every byte string of length <= %d over 24 byte classes {a, ESC, DEL, 80 85 8F 90 9F A0 BD BF, C0 C2 DF E0 E1 ED EE EF F0 F1 F4 F5 FF} (TLC: FromPlain model satisfies C11 against the Unicode Table 3-7 automaton), replayed through charset.FromPlain and Detect, with class-expanded variants, an ASCII prefix (last-three-bytes window) and as the undeclared body of XML / HTML documents with and without a leading UTF-8 mark (text/xml and text/html leaves); the automaton is cross-checked against unicode/utf8.Valid on every vector. traces: UTF-8 / Latin-1 / CP-1252 prose cut at every limit and all text placements of C07, validated by TraceText.tla. non-trivial = strings with a non-ASCII byte" % (4 if quick else 5),
        exhaustive=True,
        drift=dict(count=rep["drift"], samples=rep.get("drift_samples", [])[:5]),
        text_plain_leaf_results=rep["extra"]["text_plain_leaf_results"] + trep["extra"]["text_plain_leaf_results"],
        undeclared_xml_html_leaf_results=rep["extra"].get("undeclared_xml_html_leaf_results", 0),
        samples=rep["samples"][:4] + trep["samples"][:4],
    )
    return core.finish(ctx, violations, cov, ["FF FE 00 00 may be reported as utf-32le or utf-16le", "ASCII text characters = {09 0A 0C 0D 1B 20-7E}"])


def _meta(ctx, mode, full_labels, tag):
    cfg = "MC_Meta_%s.cfg" % mode
    if full_labels:
        p = os.path.join(ctx.scratch, cfg)
        _txt = open(p).read().replace("LabelSet <- QuickLabels", "LabelSet <- Labels")
        open(p, "w").write(_txt)
    r = ctx.tlc_expect_ok("MC_Meta.tla", cfg, timeout=6000, xmx="24g", tag=tag)
    rp = os.path.join(ctx.scratch, tag + ".json")
    ctx.vdrive(["metadocs", "-in", r["out"], "-out", rp])
    os.remove(r["out"])
    return r, ctx.report(rp)


def clonehist(ctx, maxlen):
    """CloneHist.tla: every history of <= maxlen detections / extensions, each replayed in a fresh process."""
    _set_const(ctx, "CloneHist.cfg", "MaxLen", maxlen)
    r = ctx.tlc_expect_ok("CloneHist.tla", "CloneHist.cfg", timeout=3000, tag="clonehist")
    rp = os.path.join(ctx.scratch, "clonehist.json")
    ctx.vdrive(["clonehist", "-in", r["out"], "-out", rp, "-corpus", CORPUS], timeout=6000)
    os.remove(r["out"])
    rep = ctx.report(rp)
    if rep["violation_counts"].get("C03"):
        pass
    return rep


def c12(ctx):
    prop = "C12"
    quick = ctx.tier == "quick"
    ctx.build_harness()
    t1 = ctx.tlc_expect_ok("MC_Meta.tla", "MC_Meta_tags.cfg", tag="meta_tags")
    rpt = os.path.join(ctx.scratch, "meta_tags.json")
    ctx.vdrive(["metadocs", "-in", t1["out"], "-out", rpt])
    trep_tags = ctx.report(rpt)
    t2 = ctx.tlc_expect_ok("MC_Meta.tla", "MC_Meta_content.cfg", tag="meta_content")
    # the content-attribute token strings are also rendered into pragmas and run through the real Detect
    rpc = os.path.join(ctx.scratch, "meta_content.json")
    ctx.vdrive(["metadocs", "-in", t2["out"], "-out", rpc])
    crep = ctx.report(rpc)
    r, rep = _meta(ctx, "docs", not quick, "meta_docs")
    rep["violations"] += crep["violations"] + trep_tags["violations"]
    rep["evaluations"] += crep["evaluations"] + trep_tags["evaluations"]
    rep["tags_drift"] = dict(count=trep_tags["drift"], samples=trep_tags.get("drift_samples", [])[:3])
    rep["extra"]["declaration_applicable"] += crep["extra"]["declaration_applicable"]
    cov = dict(
        evaluations=rep["evaluations"],
        distinct_nontrivial=rep["extra"]["declaration_applicable"],
        rule="model: the per-<meta> algorithm on all attribute lists of length <= 4 (%d) and fromMetaElement on %d structured content values agree with the reference (the content values are also rendered into pragmas and replayed). documents: label (%s) x {meta charset, http-equiv pragma} x quoting x attribute order x extra / duplicate attributes x letter case of tag and attribute names x whitespace layout x self-closing x 11 prologues (doctype, html/head, comment / script / title containing a fake meta, another meta, content without http-equiv, leading whitespace, a comment / script / style token of > 4 KiB) x {no mark, UTF-8 mark} x limit {0, default, just past the declaration}; plus prologues with a stray Latin-1 byte, a closed head, a body-first page and a body fragment; XML: label x quote x {version+encoding, +standalone, spaced} x {none, whitespace, mark} x limit; each rendered by the concretiser and run through Detect; the reported charset must equal the specification's Expected. non-trivial = documents whose result type is text/html resp. text/xml" % (t1["distinct"], t2["distinct"], "8 labels" if quick else "20 labels"),
        exhaustive=True,
        result_types=rep["extra"]["result_types"],
        not_applicable_documents=rep["extra"]["result_type_other_than_html_xml"],
        samples=rep["samples"][:6],
    )
    return core.finish(ctx, _vio(rep, prop), cov, ["x/net/html tokenizer and encoding/xml trusted", "XML documents starting with a UTF-8 mark are generated with the label utf-8 only"])


def c02(ctx):
    prop = "C02"
    quick = ctx.tier == "quick"
    ctx.build_harness()
    cov = {}
    r1, h = _meta(ctx, "hostile2" if quick else "hostile3", False, "meta_hostile")
    r2, d = _meta(ctx, "docs", False, "meta_docs")
    trep, results = _treetrace(ctx, quick, cov, 2)
    ch = clonehist(ctx, 2 if quick else 3)
    violations = _vio(h, prop) + _vio(d, prop) + _tree_violations(results, prop) + _vio(ch, prop)
    cov.update(
        evaluations=h["evaluations"] + d["evaluations"] + trep["evaluations"] + ch["evaluations"],
        clone_histories=dict(histories=ch["extra"]["histories"], detections=ch["evaluations"], drift=ch["drift"], drift_samples=ch.get("drift_samples", [])[:3],
                             rule="CloneHist.tla: every history of <= %d operations over {detect one of 13 sample classes (incl. har under json, aaf under ole, mqv under quicktime: nodes sharing a type string with an ancestor), Extend on a value RETURNED by a detection, Extend on a tree node}, each replayed in a fresh process; C02 shape clauses on every result" % (2 if quick else 3)),
        distinct_nontrivial=h["extra"]["hostile_with_charset_parameter"],
        rule="hostile labels: every sequence of <= %d symbols over 23 classes (token char, upper case, quotes, backslash, ; = , space tab CR LF ESC FF DEL %% * ( > /, valid UTF-8, lone continuation byte, 0xFF) x 7 declaration syntaxes (HTML meta unquoted / double / single quoted, http-equiv content plain and inner-quoted, XML double / single quoted) x {no mark, UTF-8 mark} x limit {default, cut inside the label}; every result must parse with mime.ParseMediaType, have a registered type, carry at most a charset parameter and only on the three text types, and have a finite parameter-free Parent chain ending at application/octet-stream; the same on all C12 documents and on every corpus detection and error path (TraceTree.tla C02 invariants). non-trivial = hostile documents whose result carries a charset parameter" % (2 if quick else 3),
        exhaustive=True,
        hostile_documents=h["extra"]["hostile_documents"],
        samples=h["samples"][:4] + d["samples"][:2],
    )
    return core.finish(ctx, violations, cov, ["mime.ParseMediaType is the arbiter of validity, as the statement says"])


def c15(ctx):
    prop = "C15"
    quick = ctx.tier == "quick"
    ctx.build_harness()
    reg = os.path.join(ctx.scratch, "registry.json")
    ctx.vdrive(["registry", "-out", reg])
    if not quick:
        p = os.path.join(ctx.scratch, "MediaType.cfg")
        _txt = open(p).read().replace("Full = FALSE", "Full = TRUE")
        open(p, "w").write(_txt)
    r = ctx.tlc_expect_ok("MediaType.tla", "MediaType.cfg", env={"REGISTRY": reg}, timeout=6000, xmx="24g", workers=8)
    rp = os.path.join(ctx.scratch, "mt.json")
    ctx.vdrive(["mtqueries", "-in", r["out"], "-out", rp, "-corpus", CORPUS])
    os.remove(r["out"])
    rep = ctx.report(rp)
    r1, h = _meta(ctx, "hostile2", False, "meta_hostile")
    r2, d = _meta(ctx, "docs", False, "meta_docs")
    violations = _vio(rep, prop) + _vio(h, prop) + _vio(d, prop)
    cov = dict(
        evaluations=rep["evaluations"] + h["evaluations"] + d["evaluations"],
        distinct_nontrivial=rep["distinct_nontrivial"],
        rule="registry dumped from the running tree (%d names); TLC enumerates Is queries for every (format, own name) x decorations {case as-is / UPPER / miXed} x {leading, trailing whitespace: none, spaces, tab, both} x {no parameters, charset, quoted value containing ';' and '/', two parameters, RFC 2231}, negative Is queries against the names of neighbouring formats, EqualsAny for every name x pairs of decorations, Lookup of every name (expected: first format in depth-first order carrying it); plus d.Is(d.String()), EqualsAny(d.String(), d.String()) and Lookup(base(d)).Is(d.String()) on %d detection results carrying quoted / RFC 2231-encoded charset parameters. late registrations (a name looked up before and after an Extend that registers it as type or as one of seven unsorted aliases, incl. upper-case type strings); C15 clauses on every corpus result and on each of its ancestors against the aliases of the registered format. non-trivial = negative and pairwise queries" % (rep["extra"]["by_op"].get("lookup", 0), h["evaluations"] + d["evaluations"]),
        exhaustive=True,
        by_op=rep["extra"]["by_op"],
        corpus_results_checked=rep["extra"].get("corpus_results_checked", 0),
        results_with_an_aliased_ancestor=rep["extra"].get("results_with_an_aliased_ancestor", 0),
        dropped_ill_formed=rep["extra"]["ill_formed_decorations_dropped"],
        samples=rep["samples"][:6],
    )
    return core.finish(ctx, violations, cov, ["decorations are well-formed per mime.ParseMediaType (ill-formed ones are dropped and counted)"])


def c13(ctx):
    prop = "C13"
    quick = ctx.tier == "quick"
    ctx.build_harness()
    reps = []
    design = []
    for mode in ("csv", "nd"):
        cfg = "MC_Lines_%s.cfg" % mode
        if not quick:
            _set_const(ctx, cfg, "MaxRows", 4 if mode == "nd" else 3)
            if mode == "csv":
                p = os.path.join(ctx.scratch, cfg)
                _txt = open(p).read().replace('SpecialKinds = {"e", "qd"}', 'SpecialKinds = {"e", "q", "qd", "qq"}')
                open(p, "w").write(_txt)
        r = ctx.tlc_expect_ok("MC_Lines.tla", cfg, timeout=7000, xmx="24g", tag="lines_" + mode)
        rp = os.path.join(ctx.scratch, "lines_%s.json" % mode)
        ctx.vdrive(["linevec", "-in", r["out"], "-out", rp])
        os.remove(r["out"])
        reps.append(ctx.report(rp))
        design.append(dict(mode=mode, states=r["distinct"]))
    tdir = os.path.join(ctx.scratch, "lines")
    os.makedirs(tdir)
    rp = os.path.join(ctx.scratch, "linetrace.json")
    ctx.vdrive(["linetrace", "-outdir", tdir, "-files", 400 if quick else 6000, "-seed", ctx.seed, "-out", rp, "-shards", core.NCPU])
    trep = ctx.report(rp)
    lfiles = sorted(glob.glob(os.path.join(tdir, "*.ndjson")))
    results = ctx.validate_traces("TraceLines.tla", "TraceLines.cfg", lfiles)

    def ragged(rec):       # a table reported as such, logged with one more field in its second record
        if rec.get("kind") in ("csv", "tsv") and rec["limit"] == 0 and rec["result"] in ("text/csv", "text/tab-separated-values"):
            recs = [ln for ln in rec["lines"] if ln["n"] > 0]
            if len(recs) >= 2:
                recs[1]["n"] += 1
                return True
        return False
    selftest13 = core.binding_selftest(ctx, "TraceLines.tla", "TraceLines.cfg", lfiles[0], ragged, "C13", "a table reported as CSV / TSV is logged with a ragged second record")
    violations = []
    for rep in reps:
        violations += _vio(rep, prop)
    for r in results:
        lines = None
        for t in r["tuples"]:
            if t[0] == "VIOLATION" and t[1] == prop:
                if lines is None:
                    lines = open(r["trace_file"]).readlines()
                rec = json.loads(lines[t[2] - 1])
                v = dict(property=prop, kind="trace:" + t[3], limit=rec["limit"], input_text="%s file, %d lines, header %d bytes" % (rec["kind"], len(rec["lines"]), rec["hl"]),
                         detail="TraceLines.tla: %s; result %s" % (t[3], rec["result"]), record=rec)
                v["key"] = "C13|%s|%s|%s|%s" % (t[3], rec["kind"], json.dumps(rec["lines"])[:200], rec["limit"])
                violations.append(v)
    cov = dict(
        evaluations=sum(r["evaluations"] for r in reps) + trep["evaluations"],
        vectors_replayed=sum(r["extra"]["vectors"] for r in reps),
        distinct_nontrivial=sum(r["extra"]["must_accept_with_cut_inside_file"] for r in reps),
        rule="exhaustive: abstract CSV/TSV files (2-3 record lines x 1-3 fields each, one special field: empty / quoted / quoted with delimiter / quoted with escaped quote, LF / CRLF, with / without final terminator, a blank or comment line inserted anywhere) and NDJSON files (2-%d lines from {object, array, number, string, blank, spaces, viable-but-incomplete, malformed, padded object}) rendered to bytes inside the specification and examined at EVERY limit 0..len+1; TLC checks the implementation-shaped acceptance against the reference on the abstract structure, and every (file, limit) is replayed on the real detectors and Detect. traces: %d generated larger files (RFC 4180 quoting, unicode, comments, ragged rows, damaged JSON lines) cut at every limit, validated by TraceLines.tla. non-trivial = well-formed files cut inside (limit <= length) after the second complete line" % (3 if quick else 4, trep["extra"]["files"]),
        exhaustive=True,
        binding_selftest=selftest13,
        design=design,
        drift=sum(r["drift"] for r in reps),
        exempt_higher_priority=sum(r["extra"]["exempt_higher_priority"] for r in reps),
        trace_results=trep["extra"]["results"],
        samples=reps[0]["samples"][:3] + reps[1]["samples"][:3] + trep["samples"][:2],
    )
    return core.finish(ctx, violations, cov, ["encoding/csv trusted", "records occupy one line each (no newline inside quotes)", "a leading empty line is not generated (dropLastLine ignores a newline at offset 0)"])


REGISTRY = {"C13": c13, "C07": c07, "C11": c11, "C12": c12, "C02": c02, "C15": c15}
