"""Binary / container family: C01 (never crashes), C17 (limit monotonicity), C18 (tar),
C19 (zip-based formats).

Specifications: Bounds.tla (+MC_Bounds, TraceApi), LimitMono.tla (+TraceMono), Tar.tla
(+MC_Tar, TraceTar, TarLemma proved with TLAPS), ZipWalk.tla (+MC_Zip).
"""
import glob
import json
import os
import subprocess

from . import core
from .jsonfam import _set_const
from .sysfam import CORPUS


def _generic_trace_violations(results, prop, describe):
    out = []
    for r in results:
        lines = None
        for t in r["tuples"]:
            if t[0] == "VIOLATION" and t[1] == prop:
                if lines is None:
                    lines = open(r["trace_file"]).readlines()
                rec = json.loads(lines[t[2] - 1])
                what = t[3] if len(t) > 3 else ""
                v = dict(property=prop, kind="trace:" + what, limit=rec.get("limit"), input_text=describe(rec)[:300],
                         detail="%s: %s" % (os.path.basename(r["trace_file"]), what), record={k: rec[k] for k in rec if k not in ("block", "ls", "nt")})
                v["key"] = "%s|%s|%s" % (prop, what, describe(rec)[:200])
                out.append(v)
    return out


def c01(ctx):
    prop = "C01"
    quick = ctx.tier == "quick"
    ctx.build_harness()
    r = ctx.tlc_expect_ok("MC_Bounds.tla", "MC_Bounds.cfg", timeout=3000)
    rp = os.path.join(ctx.scratch, "bounds.json")
    ctx.vdrive(["boundsvec", "-in", r["out"], "-out", rp])
    os.remove(r["out"])
    rep = ctx.report(rp)
    # prefix-style text signatures (TextSig.tla): in-bounds obligations, reference reading, replay on text/html
    ts = ctx.tlc_expect_ok("MC_TextSig.tla", "MC_TextSig.cfg", timeout=3000, xmx="16g")
    rps = os.path.join(ctx.scratch, "sigvec.json")
    ctx.vdrive(["sigvec", "-in", ts["out"], "-out", rps])
    os.remove(ts["out"])
    srep = ctx.report(rps)
    rep["violations"] += srep["violations"]
    rep["evaluations"] += srep["evaluations"]
    rep["drift"] += srep["drift"]
    rep.setdefault("drift_samples", [])
    rep["drift_samples"] += srep.get("drift_samples", [])
    # XML-signature, WebVTT and SubRip detectors (XmlSig.tla): token strings with real offsets, replayed on the tree's detectors
    for fam in ("xml", "vtt", "srt"):
        xs = ctx.tlc_expect_ok("MC_XmlSig.tla", "MC_XmlSig_%s.cfg" % fam, timeout=3000, xmx="16g", tag="MC_XmlSig_" + fam)
        rpx = os.path.join(ctx.scratch, "sig2vec_%s.json" % fam)
        ctx.vdrive(["sig2vec", "-in", xs["out"], "-out", rpx])
        os.remove(xs["out"])
        xrep = ctx.report(rpx)
        rep["violations"] += xrep["violations"]
        rep["evaluations"] += xrep["evaluations"]
        rep["drift"] += xrep["drift"]
        rep["drift_samples"] += xrep.get("drift_samples", [])
    # the content-attribute grammar of the meta prescan (MC_Meta content mode) on the real code: every document must come back
    mc = ctx.tlc_expect_ok("MC_Meta.tla", "MC_Meta_content.cfg", tag="meta_content_c01")
    rpm = os.path.join(ctx.scratch, "meta_content_c01.json")
    ctx.vdrive(["metadocs", "-in", mc["out"], "-out", rpm])
    os.remove(mc["out"])
    mrep = ctx.report(rpm)
    rep["violations"] += mrep["violations"]
    rep["evaluations"] += mrep["evaluations"]
    # hostile declaration labels (MC_Meta hostile mode, all syntaxes incl. unquoted XML values): a panic in the
    # declaration parsers kills the replayer, which vcheck reports as a C01 process crash
    from .textfam import _meta
    _r, hrep = _meta(ctx, "hostile2", False, "meta_hostile_c01")
    rep["evaluations"] += hrep["evaluations"]
    rep["violations"] += hrep["violations"]
    # zip layouts with the in-bounds obligations of ZipWalk.tla (DesignC01)
    z = ctx.tlc_expect_ok("MC_Zip.tla", "MC_Zip.cfg", timeout=3000, tag="MC_Zip_c01")
    os.remove(z["out"])
    tdir = os.path.join(ctx.scratch, "cut")
    os.makedirs(tdir)
    rp2 = os.path.join(ctx.scratch, "cutsweep.json")
    ctx.vdrive(["cutsweep", "-outdir", tdir, "-corpus", CORPUS, "-seed", ctx.seed, "-out", rp2, "-shards", core.NCPU,
                "-maxcuts", 160 if quick else 1500, "-mutations", 1 if quick else 12], timeout=7000)
    crep = ctx.report(rp2)
    afiles = sorted(glob.glob(os.path.join(tdir, "*.ndjson")))
    results = ctx.validate_traces("TraceApi.tla", "TraceApi.cfg", afiles)

    def lost_call(rec):    # one call logged as not having returned
        if rec.get("calls", 0) > 1 and rec.get("returned") == rec.get("calls"):
            rec["returned"] -= 1
            return True
        return False
    selftest01 = core.binding_selftest(ctx, "TraceApi.tla", "TraceApi.cfg", afiles[0], lost_call, "C01", "one call is logged as not returned")
    violations = [v for v in rep["violations"] + crep["violations"] if v["property"] == prop]
    violations += _generic_trace_violations(results, prop, lambda rec: "sample=%s cut=%s panic=%s" % (rec.get("sample"), rec.get("n"), rec.get("panic")))
    # termination / no crash on huge nested inputs examined in full (child processes, 32 MiB stack)
    from .jsonfam import run_bombs
    bcases = [(sh, 3000000, closed, lim, entry) for sh in ("arr", "obj") for closed in (False, True)
              for (lim, entry) in ((0, "Detect"), (0, "DetectReader"), (4000000, "Detect"))]
    brecs = run_bombs(ctx, bcases, core.NCPU)
    for br in brecs:
        if not br["returned"]:
            v = dict(property=prop, kind="crash-on-nested-input", limit=br["limit"], input_text="shape=%s units=%d closed=%s entry=%s" % (br["shape"], br["n"], br["closed"], br["entry"]),
                     detail="the call did not return: %s" % br.get("died", ""))
            v["key"] = "C01|bomb|%s|%s|%s|%s" % (br["shape"], br["closed"], br["entry"], br["limit"])
            violations.append(v)
    cov = dict(
        binding_selftest=selftest01,
        evaluations=rep["evaluations"] + crep["evaluations"],
        distinct_nontrivial=crep["distinct_nontrivial"],
        rule="model: Bounds.tla transcribes the index arithmetic of CRX (uint32 wrap-around), matchOleClsid, the Matroska vint walk and zipContains with a hostile size field, with an in-bounds obligation on every slice; TLC enumerates %d (length, field) tuples around every boundary (AllInBounds) and each is concretised into a header of exactly that length (exact capacity) and run through the real detector and Detect. traces: %d samples (test table, polyglots, stdlib-written tar / zip / OOXML / APK, CRX, MKV, OLE, JSON, UTF-8, CSV, HTML, XML, PKCS7, seeded byte mutations) cut at %d lengths in total; each header through Detect with limits {0,1,n-1,n,n+1,3072,2^32-1}, DetectReader, DetectFile and every one of the %d registered detectors directly with limits {0,n,3072}; a recovered panic is a call without return (TraceApi.tla). non-trivial = distinct (sample, cut length) headers" % (r["distinct"], crep["extra"]["samples"], crep["extra"]["headers"], crep["extra"]["registered_detectors"]),
        exhaustive=False,
        drift=dict(count=rep["drift"], samples=rep.get("drift_samples", [])[:3]),
        direct_detector_calls=crep["extra"]["direct_detector_calls"],
        nested_inputs_in_child_processes=len(brecs),
        samples=rep["samples"][:4] + crep["samples"][:1],
    )
    return core.finish(ctx, violations, cov, ["Go bounds checks and recover() observe out-of-range accesses; slices have exact capacity", "linux/amd64 only (64-bit int)", "termination of the JSON scanner on huge inputs is exercised by C16"])


def c17(ctx):
    prop = "C17"
    quick = ctx.tier == "quick"
    ctx.build_harness()
    if not quick:
        _set_const(ctx, "LimitMono.cfg", "MaxK", 4)
        _set_const(ctx, "LimitMono.cfg", "MaxL", 5)
    r = ctx.tlc_expect_ok("LimitMono.tla", "LimitMono.cfg", timeout=6000, xmx="24g")
    s = ctx.tlc("LimitMono.tla", "LimitMono_sanity.cfg", timeout=3000, tag="LimitMono_sanity")
    if not any("Invariant C17 is violated" in e for e in s["errors"]):
        raise core.Infra("sanity: LimitMono must exhibit a counter-model when a non-monotone detector without hand-over is admitted")
    tdir = os.path.join(ctx.scratch, "mono")
    os.makedirs(tdir)
    rp = os.path.join(ctx.scratch, "mono.json")
    ctx.vdrive(["monotrace", "-outdir", tdir, "-corpus", CORPUS, "-seed", ctx.seed, "-out", rp, "-mutate", 0 if quick else 6], timeout=7000)
    rep = ctx.report(rp)
    mfiles = sorted(glob.glob(os.path.join(tdir, "*.ndjson")))
    results = ctx.validate_traces("TraceMono.tla", "TraceMono.cfg", mfiles)

    def lose(rec):         # a series that stays binary, logged as if the last (largest) limit had lost the identification
        if rec.get("ev") == "mono" and len(rec["nt"]) > 4 and rec["nt"][-1] == 1 and rec["nt"][-2] == 1:
            rec["nt"][-1] = 0
            return True
        return False
    selftest17 = core.binding_selftest(ctx, "TraceMono.tla", "TraceMono.cfg", mfiles[0], lose, "C17", "a binary identification is logged as lost at the largest limit")
    violations = _generic_trace_violations(results, prop, lambda rec: "sample=%s first non-text at limit %s, later results %s" % (
        rec.get("sample"), next((rec["ls"][i] for i, v in enumerate(rec["nt"]) if v), None),
        [rec["ls"][i] for i, v in enumerate(rec["nt"]) if not v and any(rec["nt"][:i])][:8]))
    cov = dict(
        binding_selftest=selftest17,
        evaluations=rep["evaluations"],
        distinct_nontrivial=rep["extra"]["series_with_a_binary_identification"],
        rule="model: LimitMono.tla, every assignment of %d root detectors to the two shapes found in the code (monotone threshold; hand-over to a later sibling, as ttf to mdb / accdb) with thresholds within the bound and every pair L < L' (0 = unlimited as the largest): a binary first acceptor at L implies one at L'; the counter-model appears as soon as a bounded detector without hand-over is admitted (sanity run). observations: every corpus and generated sample extended with a text-like, a random, a NUL, a line-break and a `-WB_MC1.0` tail, short samples followed by the head of other samples, samples through a pipe, and 200 KB files carrying a small archive behind an unknown header (limits up to 1 MiB), detected at every limit 1..700, then geometrically to 16 KiB, then unlimited; TraceMono.tla requires that once a non-text format is reported it stays non-text. non-trivial = series in which some limit gives a binary identification" % (3),
        exhaustive=False,
        root_level_binary_formats_seen=rep["extra"]["distinct_root_level_binary_formats_seen"],
        samples=rep["samples"][:4],
    )
    return core.finish(ctx, violations, cov, ["non-text = a result more specific than the root whose chain does not contain text/plain"])


def c18(ctx):
    prop = "C18"
    quick = ctx.tier == "quick"
    ctx.build_harness()
    r = ctx.tlc_expect_ok("MC_Tar.tla", "MC_Tar.cfg", timeout=3000)
    tdir = os.path.join(ctx.scratch, "tar")
    os.makedirs(tdir)
    rp = os.path.join(ctx.scratch, "tar.json")
    ctx.vdrive(["tartrace", "-in", r["out"], "-outdir", tdir, "-seed", ctx.seed, "-out", rp, "-shards", core.NCPU, "-corrupt", 3 if quick else 40], timeout=7000)
    os.remove(r["out"])
    rep = ctx.report(rp)
    tfiles = sorted(glob.glob(os.path.join(tdir, "*.ndjson")))
    results = ctx.validate_traces("TraceTar.tla", "TraceTar.cfg", tfiles, timeout=7000)

    def untar(rec):        # a conforming archive reported as tar, logged as unknown
        if rec.get("ev") == "tar" and rec["result"] == "application/x-tar":
            rec["result"] = rec["rootchild"] = "application/octet-stream"
            return True
        return False
    selftest18 = core.binding_selftest(ctx, "TraceTar.tla", "TraceTar.cfg", tfiles[0], untar, "C18", "a conforming archive is logged as application/octet-stream")
    violations = _generic_trace_violations(results, prop, lambda rec: "header %s %s" % (rec.get("id"), rec.get("shape") or ("pos=%s vals=%s" % (rec.get("pos"), (rec.get("tar_vals") or rec.get("tar_detect_vals"))[:5]))))
    drift = sum(1 for r2 in results for t in r2["tuples"] if t[0] == "DRIFT")
    nonconf = sum(1 for r2 in results for t in r2["tuples"] if t[0] == "INFO")
    # the lemma, unbounded, with the TLA+ proof system (best effort, bounded by a timeout)
    proof = dict(obligations=0, discharged=0, note="tlapm not run")
    try:
        p = subprocess.run(["tlapm", "--threads", "8", "TarLemma.tla"], cwd=ctx.scratch, capture_output=True, text=True, timeout=180)
        out = p.stdout + p.stderr
        import re
        m = re.search(r"All (\d+) obligations? proved", out)
        if m:
            proof = dict(obligations=int(m.group(1)), discharged=int(m.group(1)), note="tlapm: all obligations proved")
        else:
            proof = dict(obligations=1, discharged=0, note="tlapm did not prove the lemma: " + out[-300:])
    except Exception as e:  # noqa
        proof["note"] = "tlapm unavailable or timed out: %s" % e
    cov = dict(
        binding_selftest=selftest18,
        evaluations=rep["evaluations"],
        distinct_nontrivial=rep["extra"]["single_byte_corruptions"],
        rule="shapes: format {USTAR, PAX, GNU} x type {regular, directory, symlink, hard link, character device, fifo, links whose TARGET ends in /gpkg-1} x name length {1,60,99,100,101,155,200,256} x numeric fields {small, maximal octal, beyond octal (base-256 / PAX records)} x user names {empty, ASCII, non-ASCII} x name prefix {plain, MZ, PK34, %%PDF-, GIF89a, ./, non-ASCII, and the signatures of root formats consulted AFTER tar: BZh, xar!, FITS card, BM, ID3, fLaC, RIFF..WAVE, ftyp} x limit {0, 512, 1000, 2000, 3072, 10000}: %d classes enumerated by TLC, %d written by archive/tar (the rest are refused by the writer itself); TraceTar.tla recomputes both checksums from the logged first block (Tar.tla), checks that the writer recorded the unsigned sum, that the detector and Detect report tar (unless one of the 22 root formats consulted before tar, HigherThanTar, claims the bytes). corruption: all 512 x 255 single-byte changes of %d first blocks through the Tar detector and Detect; outside bytes 148..155 none may still be tar. The arithmetic lemma behind it is checked by TLC over all byte pairs and proved unbounded by TLAPS. non-trivial = single-byte corruptions executed" % (rep["extra"]["shapes"], rep["extra"]["headers_written"], rep["extra"]["headers_corrupted_exhaustively"]),
        exhaustive=False,
        drift=drift,
        writer_sum_not_unsigned=nonconf,
        exempt_higher_priority=rep["extra"]["exempt_higher_priority"],
        lemma_proof=proof,
        samples=rep["samples"][:5],
    )
    return core.finish(ctx, violations, cov, ["archive/tar is the conforming writer", "positions inside the checksum field are exercised but not asserted"])


def c19(ctx):
    prop = "C19"
    quick = ctx.tier == "quick"
    ctx.build_harness()
    cfgp = os.path.join(ctx.scratch, "MC_Zip.cfg")
    if not quick:
        s = open(cfgp).read().replace("Names <- NamesQuick", "Names <- NamesAll").replace("Sizes = {0, 5, 40}", "Sizes = {0, 12, 300}")
        open(cfgp, "w").write(s)
    r = ctx.tlc_expect_ok("MC_Zip.tla", "MC_Zip.cfg", timeout=7000, xmx="24g")
    rp = os.path.join(ctx.scratch, "zip.json")
    ctx.vdrive(["zipvec", "-in", r["out"], "-out", rp, "-seed", ctx.seed], timeout=7000)
    os.remove(r["out"])
    rep = ctx.report(rp)
    # OOXML packages of 6-7 entries with the marker part late (exhaustive over a focused name menu)
    fz = ctx.tlc_expect_ok("MC_Zip.tla", "MC_Zip_focus.cfg", timeout=7000, xmx="24g", tag="MC_Zip_focus")
    rpf = os.path.join(ctx.scratch, "zipfocus.json")
    ctx.vdrive(["zipvec", "-in", fz["out"], "-out", rpf, "-seed", ctx.seed + 3], timeout=7000)
    os.remove(fz["out"])
    frep = ctx.report(rpf)
    rep["violations"] += frep["violations"]
    rep["evaluations"] += frep["evaluations"]
    rep["distinct_nontrivial"] += frep["distinct_nontrivial"]
    rep["drift"] += frep["drift"]
    # bodies of 70 000 bytes (stored): the next local header is far behind the current one
    bz = ctx.tlc_expect_ok("MC_Zip.tla", "MC_Zip_big.cfg", timeout=7000, xmx="24g", tag="MC_Zip_big")
    rpb = os.path.join(ctx.scratch, "zipbig.json")
    ctx.vdrive(["zipvec", "-in", bz["out"], "-out", rpb, "-seed", ctx.seed + 5, "-noodf"], timeout=7000)
    os.remove(bz["out"])
    brep = ctx.report(rpb)
    rep["violations"] += brep["violations"]
    rep["evaluations"] += brep["evaluations"]
    rep["distinct_nontrivial"] += brep["distinct_nontrivial"]
    rep["drift"] += brep["drift"]
    # longer archives by simulation (the "first six entries" boundary)
    srep = None
    for me in (6, 7, 8):
        s = open(cfgp).read().replace("MaxEntries = 3", "MaxEntries = %d" % me).replace("Names <- NamesQuick", "Names <- NamesAll")
        open(os.path.join(ctx.scratch, "MC_Zip_sim%d.cfg" % me), "w").write(s)
        sim = ctx.tlc("MC_Zip.tla", "MC_Zip_sim%d.cfg" % me, workers=4, timeout=3000, tag="MC_Zip_sim%d" % me,
                      extra=["-simulate", "num=%d" % (40 if quick else 1500), "-depth", str(me + 1), "-seed", str(ctx.seed + me)])
        if sim["rc"] != 0 or sim["errors"]:
            raise core.Infra("TLC simulation failed on MC_Zip: %s" % (sim["errors"][:3] or core.tail(sim["out"])))
        rp2 = os.path.join(ctx.scratch, "zipsim%d.json" % me)
        ctx.vdrive(["zipvec", "-in", sim["out"], "-out", rp2, "-seed", ctx.seed + me], timeout=7000)
        os.remove(sim["out"])
        one = ctx.report(rp2)
        if srep is None:
            srep = one
        else:
            srep["violations"] += one["violations"]
            srep["evaluations"] += one["evaluations"]
            srep["distinct_nontrivial"] += one["distinct_nontrivial"]
            srep["drift"] += one["drift"]
            srep["extra"]["archives"] += one["extra"]["archives"]
            srep["samples"] += one["samples"]
    violations = [v for v in rep["violations"] + srep["violations"] if v["property"] == prop]
    cov = dict(
        evaluations=rep["evaluations"] + srep["evaluations"],
        distinct_nontrivial=rep["distinct_nontrivial"] + srep["distinct_nontrivial"],
        rule="model: ZipWalk.tla lays out archives by arithmetic (30-byte local headers, names, extra fields, bodies, data descriptors, central directory) and runs zipContains as cursor arithmetic (jump csize+49, next local header at or after the cursor, four hops); TLC checks for every archive of <= 3 entries over the name classes (OOXML bookkeeping parts, word/ xl/ ppt/, MANIFEST.MF, APK markers, near-misses, unrelated names of 1-200 bytes) x body sizes (0 .. 300 bytes, and 70 000 bytes in a dedicated run) x with / without data descriptors that the model's class is one the statement allows and that every slice is in bounds; archives of up to 8 entries by simulation. every archive is built with archive/zip (stored or deflated with the exact compressed size, CreateHeader or CreateRaw), read back with archive/zip (oracle for entry names), and run through Detect at limit 0: class must be allowed, parent must be application/zip; plus archives whose first entry is the stored `mimetype` file for every ODF / EPUB type (with and without data descriptors, followed by ordinary parts or by JAR / APK marker names); every archive is detected a second time inside ONE buffer shared by all archives of its length, and the verdict must equal the one on a private copy. non-trivial = archives for which the statement allows exactly one non-zip class",
        exhaustive=True,
        drift=dict(exhaustive=rep["drift"], simulated=srep["drift"], samples=(rep.get("drift_samples", []) + srep.get("drift_samples", []))[:3]),
        classes=rep["extra"]["classes"],
        simulated_archives=srep["extra"]["archives"],
        samples=rep["samples"][:4] + srep["samples"][:3],
    )
    return core.finish(ctx, violations, cov, ["archive/zip is the standard writer and reader", "bodies are free of the local-header signature (checked)", "markers are name prefixes"])


REGISTRY = {"C01": c01, "C17": c17, "C18": c18, "C19": c19}
