"""Shared machinery for the model-based checks: scratch handling, harness build,
TLC runner, trace validation, verdict / evidence / known-findings handling.

Exit codes: 0 property held on everything explored; 1 violation observed on the real
code (VIOLATION line printed); 2 machinery / infrastructure failure (nothing claimed).
"""
import concurrent.futures
import hashlib
import json
import os
import re
import shutil
import subprocess
import sys
import tempfile
import time

VERIF = os.path.dirname(os.path.dirname(os.path.abspath(__file__)))
REPO = os.environ.get("VERIF_REPO", "/repo")
SPEC = os.path.join(VERIF, "spec")
HARNESS = os.path.join(VERIF, "harness")
# checks run against a scratch tree (seeded changes) must not overwrite the committed evidence
_alt = os.environ.get("VERIF_NO_EVIDENCE")
EVIDENCE = os.path.join(VERIF, "evidence") if not _alt else os.path.join(tempfile.gettempdir(), "verif-scratch-evidence")
REPLAYS = os.path.join(VERIF, "replays") if not _alt else os.path.join(tempfile.gettempdir(), "verif-scratch-replays")
KNOWN = os.path.join(VERIF, "known_findings.txt")
NCPU = os.cpu_count() or 4

GOENV = dict(GOFLAGS="-mod=mod", GOPROXY="off", GOSUMDB="off", GOTOOLCHAIN="local")


class Infra(Exception):
    """Machinery failure: exit 2, never a violation."""


class Crashed(Exception):
    """The harness process was killed by the code under test (Go fatal error / unrecovered panic with
    frames of the repository): an observation of the real code, reported as a violation."""

    def __init__(self, violation):
        Exception.__init__(self, violation["detail"])
        self.violation = violation


def log(*a):
    print(*a, file=sys.stderr, flush=True)


class Ctx:
    def __init__(self, prop, tier, seed):
        self.prop = prop
        self.tier = tier
        self.seed = seed
        self.t0 = time.time()
        self.scratch = tempfile.mkdtemp(prefix="vcheck-%s-" % prop)
        self.states = 0
        self.distinct = 0
        self.tlc_runs = []
        self.traces_validated = 0
        self.trace_records = 0
        self.cmds = []
        self.vdrive_bin = None
        self.vdrive_race = None
        for f in os.listdir(SPEC):
            if f.endswith((".tla", ".cfg")):
                shutil.copy(os.path.join(SPEC, f), self.scratch)

    def cleanup(self):
        shutil.rmtree(self.scratch, ignore_errors=True)

    # ---------------------------------------------------------------- harness
    def build_harness(self, race=False):
        out = os.path.join(self.scratch, "vdrive-race" if race else "vdrive")
        if os.path.exists(out):
            return out
        env = dict(os.environ, **GOENV)
        if race:
            env["CGO_ENABLED"] = "1"
        # the harness module pins /repo through a replace directive; go.sum is copied
        # from the repository so that no network access is attempted.  With VERIF_REPO set
        # (a scratch worktree of the repository) a private copy of the harness is built
        # against that tree instead.
        hdir = HARNESS
        if os.path.realpath(REPO) != "/repo":
            hdir = os.path.join(self.scratch, "harness-src")
            if not os.path.exists(hdir):
                shutil.copytree(HARNESS, hdir)
                gm = os.path.join(hdir, "go.mod")
                txt = open(gm).read().replace("=> /repo", "=> " + os.path.realpath(REPO))
                open(gm, "w").write(txt)
        shutil.copy(os.path.join(REPO, "go.sum"), os.path.join(hdir, "go.sum"))
        cmd = ["go", "build", "-tags", "verif"] + (["-race"] if race else []) + ["-o", out, "./cmd/vdrive"]
        p = subprocess.run(cmd, cwd=hdir, env=env, capture_output=True, text=True)
        if p.returncode != 0:
            raise Infra("harness build failed (the repository does not compile with -tags verif?):\n" + p.stdout + p.stderr)
        if race:
            self.vdrive_race = out
        else:
            self.vdrive_bin = out
        return out

    def vdrive(self, args, race=False, timeout=3600, env=None, check=True):
        exe = self.build_harness(race)
        e = dict(os.environ)
        if env:
            e.update(env)
        self.cmds.append("vdrive " + " ".join(str(a) for a in args))
        p = subprocess.run([exe] + [str(a) for a in args], capture_output=True, text=True, timeout=timeout, env=e, cwd=self.scratch)
        if check and p.returncode != 0:
            txt = (p.stdout or "") + (p.stderr or "")
            repo = os.path.realpath(REPO)
            fatal = [ln for ln in txt.splitlines() if ln.startswith("fatal error:") or ln.startswith("panic:")]
            if fatal and (repo + "/" in txt):
                frames = [ln.strip() for ln in txt.splitlines() if repo + "/" in ln][:6]
                raise Crashed(dict(property=self.prop, kind="process-crash", limit=None, key=self.prop + "|crash|" + fatal[0][:80],
                                   input_text="vdrive %s: %s" % (args[0], fatal[0]), detail="\n".join(fatal[:2] + frames)))
            raise Infra("vdrive %s failed (exit %d):\n%s\n%s" % (args[0], p.returncode, p.stdout[-4000:], p.stderr[-4000:]))
        return p

    def report(self, path):
        with open(path) as f:
            return json.load(f)

    # -------------------------------------------------------------------- TLC
    def tlc(self, module, cfg, workers=NCPU, env=None, timeout=1800, extra=(), xmx=None, tag=None, simulate=None, keep_out=True):
        tag = tag or cfg.replace(".cfg", "")
        out = os.path.join(self.scratch, tag + ".out")
        meta = os.path.join(self.scratch, "meta-" + tag)
        e = dict(os.environ)
        jtmp = os.path.join(self.scratch, "jtmp")     # SANY / TLC unpack their standard modules into java.io.tmpdir: keep that inside the scratch directory
        os.makedirs(jtmp, exist_ok=True)
        jopts = "-Xss512m -Djava.io.tmpdir=" + jtmp
        if xmx:
            jopts += " -Xmx" + xmx
        e["JAVA_TOOL_OPTIONS"] = jopts
        if env:
            e.update(env)
        cmd = ["tlc", "-workers", str(workers), "-metadir", meta, "-noTE", "-config", cfg] + list(extra) + [module]
        self.cmds.append(" ".join(cmd))
        t = time.time()
        with open(out, "w") as fo:
            try:
                p = subprocess.run(cmd, cwd=self.scratch, env=e, stdout=fo, stderr=subprocess.STDOUT, timeout=timeout)
                rc = p.returncode
            except subprocess.TimeoutExpired:
                raise Infra("TLC timed out after %ds on %s/%s" % (timeout, module, cfg))
        res = parse_tlc(out)
        res.update(rc=rc, out=out, wall=time.time() - t, tag=tag)
        shutil.rmtree(meta, ignore_errors=True)
        self.states += res["generated"]
        self.distinct += res["distinct"]
        self.tlc_runs.append({k: res[k] for k in ("tag", "generated", "distinct", "depth", "rc", "wall")})
        return res

    def tlc_expect_ok(self, *a, **kw):
        res = self.tlc(*a, **kw)
        if res["rc"] != 0 or res["errors"]:
            raise Infra("TLC reported an error on the specification itself (%s): rc=%s\n%s" % (res["tag"], res["rc"], "\n".join(res["errors"][:10]) or tail(res["out"])))
        return res

    def validate_traces(self, module, cfg, trace_files, timeout=1800, xmx="3g"):
        """Run one single-worker TLC per trace file, in parallel. Returns list of results
        with printed VIOLATION / DRIFT tuples."""
        results = []

        def one(tf):
            tag = "trace-" + os.path.basename(tf).replace(".ndjson", "")
            r = self.tlc(module, cfg, workers=1, env={"TRACE": tf}, timeout=timeout, xmx=xmx, tag=tag)
            r["trace_file"] = tf
            return r

        with concurrent.futures.ThreadPoolExecutor(max_workers=NCPU) as ex:
            for r in ex.map(one, trace_files):
                results.append(r)
        for r in results:
            if r["rc"] != 0 or r["errors"]:
                raise Infra("trace validation did not accept %s: rc=%s %s\n%s" % (r["trace_file"], r["rc"], r["errors"][:5], tail(r["out"])))
            self.traces_validated += 1
            self.trace_records += count_lines(r["trace_file"])
        return results


def binding_selftest(ctx, module, cfg, trace_file, mutate, prop, what, max_lines=4000):
    """Binding demonstration (guards against a vacuous trace specification): corrupt ONE logged record of a
    real trace with `mutate(rec) -> bool`, validate again, and require that the specification objects
    (a VIOLATION tuple for `prop`, or the trace is not accepted). Infra (exit 2) if the corrupted trace passes."""
    out, done = [], False
    with open(trace_file) as f:
        for i, ln in enumerate(f):
            if i >= max_lines:
                break
            if not done and ln.strip():
                rec = json.loads(ln)
                if mutate(rec):
                    ln = json.dumps(rec) + "\n"
                    done = True
            out.append(ln)
    if not done:
        return "skipped: no record suitable for '%s' among the first %d" % (what, max_lines)
    tf = os.path.join(ctx.scratch, "selftest-%s-%s.ndjson" % (module.replace(".tla", ""), prop))
    with open(tf, "w") as f:
        f.writelines(out)
    r = ctx.tlc(module, cfg, workers=1, env={"TRACE": tf}, xmx="3g", tag="selftest-%s-%s" % (module.replace(".tla", ""), prop))
    if r["rc"] == 0 and not r["errors"] and not any(t[0] == "VIOLATION" and t[1] == prop for t in r["tuples"]):
        raise Infra("binding self-test: %s accepted a trace in which %s" % (module, what))
    ctx.traces_validated -= 0
    return "rejected: " + what


def count_lines(p):
    n = 0
    with open(p, "rb") as f:
        for _ in f:
            n += 1
    return n


def tail(path, n=30):
    try:
        with open(path, errors="replace") as f:
            return "".join(f.readlines()[-n:])
    except OSError:
        return ""


_re_states = re.compile(r"^(\d+) states generated, (\d+) distinct states found")
_re_depth = re.compile(r"The depth of the complete state graph search is (\d+)")
_re_tuple_start = re.compile(r'^<<\s*"(VIOLATION|DRIFT|INFO|COVER)"')


def parse_tlc(out):
    res = dict(generated=0, distinct=0, depth=0, errors=[], tuples=[])
    pending = None   # TLC pretty-prints long tuples over several lines
    with open(out, errors="replace") as f:
        for line in f:
            line = line.rstrip("\n")
            if pending is not None:
                pending += " " + line.strip()
                if pending.endswith(">>"):
                    res["tuples"].append(parse_tla_tuple(pending))
                    pending = None
                elif len(pending) > 100000:
                    pending = None
                continue
            m = _re_states.match(line)
            if m:
                res["generated"] = int(m.group(1))
                res["distinct"] = int(m.group(2))
                continue
            m = _re_depth.search(line)
            if m:
                res["depth"] = int(m.group(1))
                continue
            if line.startswith("Error:") or "Exception" in line and "TLC" in line:
                res["errors"].append(line)
                continue
            if _re_tuple_start.match(line):
                if line.rstrip().endswith(">>"):
                    res["tuples"].append(parse_tla_tuple(line))
                else:
                    pending = line.strip()
    return res


def parse_tla_tuple(line):
    """<<"KIND", "x", 12, TRUE>>  ->  ["KIND","x",12,True] (flat tuples only)."""
    body = line.strip()
    body = body[2:-2].strip()
    out = []
    for tok in re.findall(r'"(?:[^"\\]|\\.)*"|[^,\s][^,]*', body):
        tok = tok.strip()
        if tok.startswith('"'):
            out.append(tok[1:-1])
        elif tok == "TRUE":
            out.append(True)
        elif tok == "FALSE":
            out.append(False)
        else:
            try:
                out.append(int(tok))
            except ValueError:
                out.append(tok)
    return out


# ------------------------------------------------------------------ findings
def load_known():
    """known_findings.txt lines:
         finding: property=C09 key=<key> <what fails>
         fixed: property=C09 <commit> <what failed>
    Only 'finding:' lines suppress a violation (matched by exact key)."""
    known = {}
    if os.path.exists(KNOWN):
        with open(KNOWN) as f:
            for line in f:
                line = line.strip()
                m = re.match(r"finding: property=(\S+) key=(\S+) (.*)$", line)
                if m:
                    known[(m.group(1), m.group(2))] = m.group(3)
    return known


def finish(ctx, violations, coverage, assumptions, level="model_checking"):
    """violations: list of dicts with at least property, key, detail (all for ctx.prop).
    Prints KNOWN-FINDING / VIOLATION lines, writes evidence, returns the exit code."""
    known = load_known()
    new = []
    seen_known = set()
    dedup = set()
    for v in violations:
        if v["property"] != ctx.prop or v["key"] in dedup:
            continue
        dedup.add(v["key"])
        k = (v["property"], v["key"])
        if k in known:
            if k not in seen_known:
                seen_known.add(k)
                print("KNOWN-FINDING: property=%s %s" % (ctx.prop, known[k]))
            continue
        new.append(v)
    rc = 0
    if new:
        os.makedirs(REPLAYS, exist_ok=True)
        shown = 0
        for v in new:
            if shown >= 5:
                break
            name = "%s-%s.json" % (ctx.prop, hashlib.sha1(v["key"].encode()).hexdigest()[:12])
            path = os.path.join(REPLAYS, name)
            with open(path, "w") as f:
                json.dump(v, f, indent=1)
            print("VIOLATION property=%s replay=%s" % (ctx.prop, path))
            log("  ", v.get("kind", ""), v.get("input_text", v.get("input_hex", ""))[:200], "limit=%s" % v.get("limit"), v.get("detail", "")[:300])
            shown += 1
        if len(new) > shown:
            log("  ... and %d more violations of %s" % (len(new) - shown, ctx.prop))
        rc = 1
    cov = dict(coverage)
    cov.setdefault("states", ctx.distinct)
    cov.setdefault("transitions", ctx.states)
    cov.setdefault("traces_validated_against_impl", ctx.traces_validated)
    cov["trace_records_validated"] = ctx.trace_records
    cov["tlc_runs"] = ctx.tlc_runs
    cov.setdefault("checker_cmd", "; ".join(ctx.cmds)[:4000])
    if not cov.get("samples"):
        cov["samples"] = ["(no sample recorded)"]
    ev = dict(property_id=ctx.prop, tier=ctx.tier, seed=ctx.seed, level=level, coverage=cov,
              assumptions=assumptions, wall_s=round(time.time() - ctx.t0, 2), violations=len(new),
              known_findings_seen=len(seen_known))
    os.makedirs(EVIDENCE, exist_ok=True)
    with open(os.path.join(EVIDENCE, ctx.prop + ".json"), "w") as f:
        json.dump(ev, f, indent=1)
    log("%s %s: %s in %.1fs (states %d, transitions %d, traces %d)" % (ctx.prop, ctx.tier, "VIOLATION" if rc else "ok", time.time() - ctx.t0, cov["states"], cov["transitions"], cov["traces_validated_against_impl"]))
    return rc
