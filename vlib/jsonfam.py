"""JSON family: C08 (completeness), C09 (soundness), C10 (sub-types), C16 (nesting bombs).

Pipeline (all three layers of DESIGN.md section 2):
  1. TLC exhaustive design check of JsonScan against the reference recognisers (VIEW).
  2. TLC exhaustive enumeration without VIEW; every terminal state is a conformance
     vector replayed on the real json.Parse / detectors / Detect (vdrive jsonvec).
  3. Generated large documents cut at many limits run through the real Detect with
     the scanner hooks on; the recorded trace is validated by TraceJson.tla.
"""
import glob
import json
import os

from . import core


def _trace_violations(ctx, results, prop):
    """Map <<"VIOLATION", name, l>> tuples printed by TraceJson back to trace records."""
    out = []
    drift = 0
    for r in results:
        lines = None
        for t in r["tuples"]:
            if t[0] == "DRIFT":
                drift += 1
            if t[0] != "VIOLATION" or t[1] != prop:
                continue
            if lines is None:
                with open(r["trace_file"]) as f:
                    lines = f.readlines()
            rec = json.loads(lines[t[2] - 1])
            raw = bytes(rec.get("raw", []))
            v = dict(property=prop, kind="trace-" + rec.get("ev", ""), input_hex=raw.hex(), input_text=repr(raw)[:300],
                     limit=rec.get("limit", 0), detail="TraceJson.tla invariant T%s false on recorded event: real result %s (class %r)" % (prop, rec.get("mime"), rec.get("cls")),
                     record=rec)
            v["key"] = "%s|%s|%s|%s" % (prop, v["kind"], v["input_hex"], v["limit"])
            out.append(v)
    return out, drift


def run_json(ctx, prop):
    quick = ctx.tier == "quick"
    ctx.build_harness()
    cov = {}
    # 1. design check
    design_len = 10 if quick else 13
    _set_const(ctx, "MC_JsonBytes_design.cfg", "MaxLen", design_len)
    d = ctx.tlc_expect_ok("MC_JsonBytes.tla", "MC_JsonBytes_design.cfg", timeout=3000)
    cov["design_check"] = dict(alphabet=17, max_len=design_len, cap=3, distinct_states=d["distinct"], invariants="C08Whole C08Trunc C09Whole C09Trunc C16Depth IbIsCursor PathBalanced PathBounded", view=True)
    # 2. conformance vectors
    vec_len = 6 if quick else 7
    _set_const(ctx, "MC_JsonBytes_vec.cfg", "MaxLen", vec_len)
    v = ctx.tlc_expect_ok("MC_JsonBytes.tla", "MC_JsonBytes_vec.cfg", timeout=6000, xmx="24g")
    rep_path = os.path.join(ctx.scratch, "jsonvec.json")
    ctx.vdrive(["jsonvec", "-in", v["out"], "-out", rep_path, "-seed", ctx.seed, "-variants", 1 if quick else 2])
    rep = ctx.report(rep_path)
    os.remove(v["out"])
    if rep["oracle_mismatch"]:
        raise core.Infra("strict reference disagrees with encoding/json on %d vectors: %s" % (rep["oracle_mismatch"], rep["oracle_samples"][:3]))
    # 3. trace validation of generated documents
    tdir = os.path.join(ctx.scratch, "traces")
    os.makedirs(tdir)
    trep_path = os.path.join(ctx.scratch, "jsontrace.json")
    ctx.vdrive(["jsontrace", "-outdir", tdir, "-docs", 300 if quick else 6000, "-seed", ctx.seed, "-out", trep_path,
                "-shards", core.NCPU, "-parse-every", 8 if quick else 16])
    trep = ctx.report(trep_path)
    results = ctx.validate_traces("TraceJson.tla", "TraceJson.cfg", sorted(glob.glob(os.path.join(tdir, "*.ndjson"))))
    tviol, tdrift = _trace_violations(ctx, results, prop)
    violations = [x for x in rep["violations"] if x["property"] == prop] + tviol + [x for x in trep["violations"] if x["property"] == prop]
    nvec = rep["violation_counts"].get(prop, 0)
    cov.update(
        evaluations=rep["evaluations"] + trep["evaluations"],
        vectors_replayed=rep["extra"]["vectors"],
        distinct_nontrivial=rep["distinct_nontrivial"],
        rule="vectors: every byte string of length <= %d over the 17-symbol alphabet {space [ ] { } , : \" \\ u 1 - . e n l x} that the scanner has not rejected before its last byte (TLC, no VIEW), each replayed on json.Parse, the application/json detector (limit 0, len+1, len) and Detect (limits 0, len+1, len, len with a tail appended) plus %d class-expanded variants; non-trivial = the string is a viable prefix of a valid document containing an opening bracket (strict recogniser live). traces: %d generated documents (all token spellings, layouts, escapes, sub-type members, %d mutated) x up to 48 limits each through Detect, validated by TraceJson.tla" % (vec_len, 1 if quick else 2, trep["extra"]["documents"], trep["extra"]["mutated_documents"]),
        exhaustive=True,
        bounds=dict(vector_max_len=vec_len, design_max_len=design_len, real_cap=4096),
        drift=dict(vector_replay=rep["drift"], samples=rep.get("drift_samples", [])[:5], trace=tdrift),
        oracle_sanity="strict reference == encoding/json.Valid && top-level container on all %d vectors" % rep["extra"]["vectors"],
        valid_prefix_vectors_cut_inside_document=rep["extra"]["valid_prefix_vectors_cut_inside_document"],
        detections=rep["extra"]["detections"] + trep["evaluations"],
        exempt_higher_priority=rep["extra"]["exempt_higher_priority"],
        violations_in_vectors=nvec,
        violations_in_traces=len(tviol),
        samples=rep["samples"][:6] + trep["samples"][:4],
        parses_started_dirty=trep["extra"]["parses_started_dirty"],
    )
    assumptions = ["TLC, the Json/IOUtils community modules and encoding/json (oracle sanity) are trusted",
                   "exhaustive only within the stated length/alphabet bounds; beyond them generated documents validated against the reference recognisers",
                   "relaxed grammar of C09 as fixed in DESIGN.md section 3.2"]
    return core.finish(ctx, violations, cov, assumptions)


def _set_const(ctx, cfg, name, val):
    p = os.path.join(ctx.scratch, cfg)
    import re
    s = open(p).read()
    s2 = re.sub(r"(?m)^(\s*%s\s*=\s*).*$" % re.escape(name), r"\g<1>%s" % val, s)
    open(p, "w").write(s2)


def c08(ctx):
    return run_json(ctx, "C08")


def c09(ctx):
    return run_json(ctx, "C09")
