"""JSON family: C08 (completeness), C09 (soundness), C10 (sub-types), C16 (nesting bombs).

Pipeline (all three layers of DESIGN.md section 2):
  1. TLC exhaustive design check of JsonScan against the reference recognisers (VIEW).
  2. TLC exhaustive enumeration without VIEW; every terminal state is a conformance
     vector replayed on the real json.Parse / detectors / Detect (vdrive jsonvec).
  3. Generated large documents cut at many limits run through the real Detect with
     the scanner hooks on; the recorded trace is validated by TraceJson.tla.
"""
import glob
import json
import os

from . import core


def _trace_violations(ctx, results, prop):
    """Map <<"VIOLATION", name, l>> tuples printed by TraceJson back to trace records."""
    out = []
    drift = 0
    for r in results:
        lines = None
        for t in r["tuples"]:
            if t[0] == "DRIFT":
                drift += 1
            if t[0] != "VIOLATION" or t[1] != prop:
                continue
            if lines is None:
                with open(r["trace_file"]) as f:
                    lines = f.readlines()
            rec = json.loads(lines[t[2] - 1])
            raw = bytes(rec.get("raw", []))
            v = dict(property=prop, kind="trace-" + rec.get("ev", ""), input_hex=raw.hex(), input_text=repr(raw)[:300],
                     limit=rec.get("limit", 0), detail="TraceJson.tla invariant T%s false on recorded event: real result %s (class %r)" % (prop, rec.get("mime"), rec.get("cls")),
                     record=rec)
            v["key"] = "%s|%s|%s|%s" % (prop, v["kind"], v["input_hex"], v["limit"])
            out.append(v)
    return out, drift


def _wide(ctx, prop, violations, cov, quick):
    """wide documents (3 .. 10^5 / 10^6 elements, damage or the deciding member only after the last one): run-length form, TraceWide.tla"""
    wtf = os.path.join(ctx.scratch, "wide.ndjson")
    wrp = os.path.join(ctx.scratch, "wide.json")
    ctx.vdrive(["wide", "-trace", wtf, "-out", wrp] + ([] if quick else ["-big"]), timeout=3000)
    wrecs = [json.loads(x) for x in open(wtf)]
    for r in ctx.validate_traces("TraceWide.tla", "TraceWide.cfg", [wtf]):
        for t in r["tuples"]:
            if t[0] == "VIOLATION" and t[1] == prop:
                rec = wrecs[t[2] - 1]
                v = dict(property=prop, kind="wide-document", limit=rec["limit"], record=rec,
                         input_text="shape=%s elements=%d tail=%s entry=%s" % (rec["shape"], rec["n"], rec["tail"], rec["entry"]),
                         detail="TraceWide.tla: %s; class reported %r (%s)" % (t[3] if len(t) > 3 else "", rec["cls"], rec.get("mime")))
                v["key"] = "%s|wide|%s|%d|%s|%s|%d" % (prop, rec["shape"], rec["n"], rec["tail"], rec["entry"], rec["limit"])
                violations.append(v)
    cov["wide_documents"] = len(wrecs)

    def flip(rec):
        if prop == "C08" and rec["tail"] == "ok" and rec["limit"] == 0 and rec["cls"] == "json":
            rec["cls"] = ""
            return True
        if prop == "C09" and rec["tail"] == "dcomma" and rec["limit"] == 0 and rec["cls"] == "":
            rec["cls"] = "json"
            return True
        if prop == "C10" and rec["tail"] == "geo" and rec["limit"] == 0 and rec["cls"] == "geo":
            rec["cls"] = "json"
            return True
        return False
    cov["wide_binding_selftest"] = core.binding_selftest(ctx, "TraceWide.tla", "TraceWide.cfg", wtf, flip, prop, "the class of one wide document is logged wrongly")


def run_json(ctx, prop):
    quick = ctx.tier == "quick"
    ctx.build_harness()
    cov = {}
    # 1. design check
    design_len = 10 if quick else 13
    _set_const(ctx, "MC_JsonBytes_design.cfg", "MaxLen", design_len)
    d = ctx.tlc_expect_ok("MC_JsonBytes.tla", "MC_JsonBytes_design.cfg", timeout=3000)
    cov["design_check"] = dict(alphabet=17, max_len=design_len, cap=3, distinct_states=d["distinct"], invariants="C08Whole C08Trunc C09Whole C09Trunc C16Depth IbIsCursor PathBalanced PathBounded", view=True)
    # 2. conformance vectors
    vec_len = 6 if quick else 7
    _set_const(ctx, "MC_JsonBytes_vec.cfg", "MaxLen", vec_len)
    v = ctx.tlc_expect_ok("MC_JsonBytes.tla", "MC_JsonBytes_vec.cfg", timeout=6000, xmx="24g")
    rep_path = os.path.join(ctx.scratch, "jsonvec.json")
    ctx.vdrive(["jsonvec", "-in", v["out"], "-out", rep_path, "-seed", ctx.seed, "-variants", 1 if quick else 2])
    rep = ctx.report(rep_path)
    os.remove(v["out"])
    if rep["oracle_mismatch"]:
        raise core.Infra("strict reference disagrees with encoding/json on %d vectors: %s" % (rep["oracle_mismatch"], rep["oracle_samples"][:3]))
    # 3. trace validation of generated documents
    tdir = os.path.join(ctx.scratch, "traces")
    os.makedirs(tdir)
    trep_path = os.path.join(ctx.scratch, "jsontrace.json")
    ctx.vdrive(["jsontrace", "-outdir", tdir, "-docs", 300 if quick else 6000, "-seed", ctx.seed, "-out", trep_path,
                "-shards", core.NCPU, "-parse-every", 8 if quick else 16])
    trep = ctx.report(trep_path)
    jfiles = sorted(glob.glob(os.path.join(tdir, "*.ndjson")))
    results = ctx.validate_traces("TraceJson.tla", "TraceJson.cfg", jfiles)

    def flipcls(rec):      # a whole, well-formed document logged as not JSON (C08) / a detected class logged as another (C09, C10)
        if rec.get("ev") != "detect" or rec.get("exempt") or rec["limit"] != 0:
            return False
        if prop == "C08" and rec["cls"] == "json":
            rec["cls"] = ""
            return True
        if prop == "C09" and rec["cls"] == "" and rec["raw"][:1] not in ([91], [123]) and 91 not in rec["raw"] and 123 not in rec["raw"]:
            rec["cls"] = "json"
            return True
        if prop == "C10" and rec["cls"] == "json":
            rec["cls"] = "geo"
            return True
        return False
    json_selftest = core.binding_selftest(ctx, "TraceJson.tla", "TraceJson.cfg", jfiles[0], flipcls, prop, "the class of one detection is logged wrongly")
    cov["json_binding_selftest"] = json_selftest
    tviol, tdrift = _trace_violations(ctx, results, prop)
    violations = [x for x in rep["violations"] if x["property"] == prop] + tviol + [x for x in trep["violations"] if x["property"] == prop]
    # documents nested up to the cap (objects, arrays, mixed), whole and truncated: run-length form, TraceBomb.tla
    cap = 4096
    bcases = []
    for shape, units in (("arr", (2049, 4095, 4096)), ("obj", (2049, 3000, 4096)), ("mixed", (1025, 1500, 2048)), ("pad", (3000,))):
        ul = {"arr": 1, "obj": 5, "mixed": 6, "pad": 2}[shape]
        for n in units:
            bcases += [(shape, n, True, 0, "Detect"), (shape, n, True, ul * (n // 2), "Detect"), (shape, n, False, 0, "json"), (shape, n, True, 0, "DetectReader")]
    for n in (3, 4095, 4096, 4097, 4098, 5000):   # malformed at depth: a comma where the innermost value must stand
        bcases += [("arrc", n, True, 0, "Detect"), ("arrc", n, True, 0, "json"), ("arrc", n, True, n + 3, "Detect"), ("arrc", n, True, 2 * n + 1, "json")]
    brecs = run_bombs(ctx, bcases, core.NCPU)
    btf = os.path.join(ctx.scratch, "deep.ndjson")
    with open(btf, "w") as f:
        for r in brecs:
            f.write(json.dumps({k: v for k, v in r.items() if k != "died"}) + "\n")
    for r in ctx.validate_traces("TraceBomb.tla", "TraceBomb.cfg", [btf]):
        for t in r["tuples"]:
            if t[0] == "VIOLATION" and t[1] == prop:
                rec = brecs[t[2] - 1]
                v = dict(property=prop, kind="deep-document", limit=rec["limit"], record=rec,
                         input_text="shape=%s units=%d closed=%s entry=%s" % (rec["shape"], rec["n"], rec["closed"], rec["entry"]),
                         detail="TraceBomb.tla: nesting within the cap, class reported %r (%s)" % (rec["cls"], rec.get("mime")))
                v["key"] = "%s|deep|%s|%d|%s|%s|%d" % (prop, rec["shape"], rec["n"], rec["closed"], rec["entry"], rec["limit"])
                violations.append(v)
    cov["deep_documents"] = len(brecs)
    _wide(ctx, prop, violations, cov, quick)
    nvec = rep["violation_counts"].get(prop, 0)
    cov.update(
        evaluations=rep["evaluations"] + trep["evaluations"],
        vectors_replayed=rep["extra"]["vectors"],
        distinct_nontrivial=rep["distinct_nontrivial"],
        rule="vectors: every byte string of length <= %d over the 17-symbol alphabet {space [ ] { } , : \" \\ u 1 - . e n l x} that the scanner has not rejected before its last byte (TLC, no VIEW), each replayed on json.Parse, the application/json detector (limit 0, len+1, len) and Detect (limits 0, len+1, len, len with a tail appended) plus %d class-expanded variants; non-trivial = the string is a viable prefix of a valid document containing an opening bracket (strict recogniser live). traces: %d generated documents (all token spellings, layouts, escapes, sub-type members, %d mutated) x up to 48 limits each through Detect, validated by TraceJson.tla" % (vec_len, 1 if quick else 2, trep["extra"]["documents"], trep["extra"]["mutated_documents"]),
        exhaustive=True,
        bounds=dict(vector_max_len=vec_len, design_max_len=design_len, real_cap=4096),
        drift=dict(vector_replay=rep["drift"], samples=rep.get("drift_samples", [])[:5], trace=tdrift),
        oracle_sanity="strict reference == encoding/json.Valid && top-level container on all %d vectors" % rep["extra"]["vectors"],
        valid_prefix_vectors_cut_inside_document=rep["extra"]["valid_prefix_vectors_cut_inside_document"],
        detections=rep["extra"]["detections"] + trep["evaluations"],
        exempt_higher_priority=rep["extra"]["exempt_higher_priority"],
        violations_in_vectors=nvec,
        violations_in_traces=len(tviol),
        samples=rep["samples"][:6] + trep["samples"][:4],
        parses_started_dirty=trep["extra"]["parses_started_dirty"],
    )
    assumptions = ["TLC, the Json/IOUtils community modules and encoding/json (oracle sanity) are trusted",
                   "exhaustive only within the stated length/alphabet bounds; beyond them generated documents validated against the reference recognisers",
                   "relaxed grammar of C09 as fixed in DESIGN.md section 3.2"]
    return core.finish(ctx, violations, cov, assumptions)


def _set_const(ctx, cfg, name, val):
    p = os.path.join(ctx.scratch, cfg)
    import re
    s = open(p).read()
    s2 = re.sub(r"(?m)^(\s*%s\s*=\s*).*$" % re.escape(name), r"\g<1>%s" % val, s)
    open(p, "w").write(s2)


def c08(ctx):
    return run_json(ctx, "C08")


def c09(ctx):
    return run_json(ctx, "C09")


def c10(ctx):
    """Token-chunk instance with the real query keys, all four query types."""
    prop = "C10"
    quick = ctx.tier == "quick"
    ctx.build_harness()
    nchunks = 8 if quick else 10
    _set_const(ctx, "MC_JsonTokens_vec.cfg", "MaxChunks", nchunks)
    v = ctx.tlc_expect_ok("MC_JsonTokens.tla", "MC_JsonTokens_vec.cfg", timeout=7000, xmx="24g")
    rep_path = os.path.join(ctx.scratch, "jsonvec.json")
    ctx.vdrive(["jsonvec", "-in", v["out"], "-out", rep_path, "-seed", ctx.seed, "-variants", 0])
    rep = ctx.report(rep_path)
    os.remove(v["out"])
    if rep["oracle_mismatch"]:
        raise core.Infra("strict reference disagrees with encoding/json: %s" % rep["oracle_samples"][:3])
    tdir = os.path.join(ctx.scratch, "traces")
    os.makedirs(tdir)
    trep_path = os.path.join(ctx.scratch, "jsontrace.json")
    ctx.vdrive(["jsontrace", "-outdir", tdir, "-docs", 450 if quick else 12000, "-seed", ctx.seed + 1000, "-out", trep_path,
                "-shards", core.NCPU, "-parse-every", 8 if quick else 16, "-subtype-only", "-maxcuts", 120])
    trep = ctx.report(trep_path)
    jfiles = sorted(glob.glob(os.path.join(tdir, "*.ndjson")))
    results = ctx.validate_traces("TraceJson.tla", "TraceJson.cfg", jfiles)

    def flipcls(rec):      # a whole, well-formed document logged as not JSON (C08) / a detected class logged as another (C09, C10)
        if rec.get("ev") != "detect" or rec.get("exempt") or rec["limit"] != 0:
            return False
        if prop == "C08" and rec["cls"] == "json":
            rec["cls"] = ""
            return True
        if prop == "C09" and rec["cls"] == "" and rec["raw"][:1] not in ([91], [123]) and 91 not in rec["raw"] and 123 not in rec["raw"]:
            rec["cls"] = "json"
            return True
        if prop == "C10" and rec["cls"] == "json":
            rec["cls"] = "geo"
            return True
        return False
    json_selftest = core.binding_selftest(ctx, "TraceJson.tla", "TraceJson.cfg", jfiles[0], flipcls, prop, "the class of one detection is logged wrongly")
    tviol, tdrift = _trace_violations(ctx, results, prop)
    violations = [x for x in rep["violations"] if x["property"] == prop] + tviol
    wcov = {}
    _wide(ctx, prop, violations, wcov, quick)
    cov = dict(
        json_binding_selftest=json_selftest,
        wide_documents=wcov["wide_documents"],
        evaluations=rep["evaluations"] + trep["evaluations"],
        vectors_replayed=rep["extra"]["vectors"],
        distinct_nontrivial=rep["distinct_nontrivial"],
        rule="vectors: every sequence of <= %d chunks over {{ }} [ ] , 1 [1] \"type\": \"Feature\" \"log\": \"version\": \"asset\": \"2.0\"} x query type {json, geo, har, gltf} not rejected before its last byte (TLC, no VIEW; invariants C10Pos/C10Neg relate the scanner model to the top-level-member tracker written from the statement); each replayed on json.Parse and the four detectors in whole and truncated mode, and (query json) through Detect comparing the reported class with the tracker's allowed classes. non-trivial = viable prefix of a valid document. traces: %d generated objects with deciding / look-alike members at random positions among siblings of every shape, x up to 120 limits (every cut for most documents), validated by TraceJson.tla (TC10)" % (nchunks, trep["extra"]["documents"]),
        exhaustive=True,
        bounds=dict(max_chunks=nchunks),
        drift=dict(vector_replay=rep["drift"], samples=rep.get("drift_samples", [])[:5], trace=tdrift),
        detections=rep["extra"]["detections"] + trep["evaluations"],
        classes_seen_in_traces=trep["extra"]["classes"],
        violations_in_vectors=rep["violation_counts"].get(prop, 0),
        violations_in_traces=len(tviol),
        samples=rep["samples"][:6] + trep["samples"][:4],
    )
    assumptions = ["TLC and the community modules are trusted", "keys and deciding values spelled literally (as the statement says)",
                   "a deciding member cut by the end of the header makes either classification acceptable"]
    return core.finish(ctx, violations, cov, assumptions)



def run_bombs(ctx, cases, workers):
    """Run nesting-bomb cases, one child process each; a child that dies or hangs is a record with returned=False."""
    import concurrent.futures
    import subprocess
    exe = ctx.build_harness()

    def run(case):
        prefix, warm = "", False
        if len(case) == 7:
            warm = case[6]
            case = case[:6]
        if len(case) == 6:
            prefix = case[5]
            case = case[:5]
        shape, n, closed, lim, entry = case
        cmd = [exe, "bomb"] + (["-warm"] if warm else []) + ["-prefix", prefix, "-shape", shape, "-n", str(n), "-closed=%s" % ("true" if closed else "false"), "-limit", str(lim), "-entry", entry]
        try:
            p = subprocess.run(cmd, capture_output=True, text=True, timeout=300)
        except subprocess.TimeoutExpired:
            return dict(ev="bomb", prefix=prefix, warm=warm, plen=0, shape=shape, n=n, closed=closed, limit=lim, entry=entry, returned=False, maxlvl=0, cls="", parses=0, mime="", wall_ms=300000, died="timeout")
        if p.returncode == 0 and p.stdout.strip():
            return json.loads(p.stdout.strip().splitlines()[-1])
        if p.returncode == 2 and "stack" not in p.stderr and "overflow" not in p.stderr and "signal" not in p.stderr:
            raise core.Infra("bomb driver failed: %s %s" % (cmd, p.stderr[-500:]))
        return dict(ev="bomb", prefix=prefix, warm=warm, plen=0, shape=shape, n=n, closed=closed, limit=lim, entry=entry, returned=False, maxlvl=0, cls="", parses=0, mime="", wall_ms=0, died=p.stderr[-300:])

    with concurrent.futures.ThreadPoolExecutor(max_workers=workers) as ex:
        return list(ex.map(run, cases))


BOMB_SHAPES = ["arr", "obj", "mixed", "pad", "arrnf", "objnf", "objsp"]


def c16(ctx):
    prop = "C16"
    quick = ctx.tier == "quick"
    ctx.build_harness()
    cov = {}
    # 1. model: stack/level/path bounded by a function of Cap only
    runs = []
    for cap, nch in ((2, 11), (3, 11)) if quick else ((2, 13), (3, 13), (4, 12)):
        _set_const(ctx, "MC_JsonNest.cfg", "Cap", cap)
        _set_const(ctx, "MC_JsonNest.cfg", "MaxChunks", nch)
        r = ctx.tlc_expect_ok("MC_JsonNest.tla", "MC_JsonNest.cfg", tag="MC_JsonNest_cap%d" % cap, timeout=3000, xmx="24g")
        runs.append(dict(cap=cap, max_chunks=nch, distinct=r["distinct"]))
    cov["model_runs"] = runs
    # 2. real bombs, one child process per case
    cap = 4096
    ns = [cap - 1, cap, cap + 1, cap + 2, 100000, 1000000] + ([10000000] if quick else [10000000, 50000000])
    cases = []
    for shape in BOMB_SHAPES:
        ul = {"arr": 1, "obj": 5, "mixed": 6, "pad": 2, "arrnf": 3, "objnf": 12, "objsp": 6}[shape]
        lv = 2 if shape == "mixed" else 1
        for n in ns:
            nn = n // lv if n <= cap + 2 else n
            if shape == "mixed" and n <= cap + 2:
                nn = n // 2
            big = nn >= 10000000
            for closed in (False, True):
                for entry in (["Detect"] if big and quick else ["Detect", "DetectReader", "json"]):
                    limits = [0]
                    if not big:
                        limits += [ul * (nn // 2)]
                    if not quick and entry == "Detect":
                        limits += [4294967295]
                    for lim in limits:
                        cases.append((shape, nn, closed, lim, entry))
        for entry in ("geo", "har", "gltf", "ndjson"):
            cases.append((shape, 1000000, True, 0, entry))
        # a completed value / a string with an escaped quote / a completed member ahead of the nesting
        for prefix in ("lead0", "leadq", "leadobj", "coords", "feat"):
            for n in (cap + 2, 1000000):
                cases.append((shape, n, False, 0, "Detect", prefix))
                cases.append((shape, n, False, 0, "ndjson", prefix))
        # after a history of short documents on the same pooled scanner state
        for n in (cap + 2, 1000000):
            cases.append((shape, n, False, 0, "Detect", "", True))
            cases.append((shape, n, True, 0, "Detect", "", True))
    if not quick:
        cases.append(("arr", 1000000, True, 4294967295, "DetectReader"))  # 4 GiB buffer, run with the others
    recs = run_bombs(ctx, cases, 4 if not quick else core.NCPU)
    tf = os.path.join(ctx.scratch, "bomb.ndjson")
    with open(tf, "w") as f:
        for r in recs:
            # TLC integers are 32-bit: a limit of 2^32-1 is written as 2^31-1 (both mean "larger than any input here")
            f.write(json.dumps({k: (min(v, 2147483647) if k == "limit" else v) for k, v in r.items() if k != "died"}) + "\n")
    results = ctx.validate_traces("TraceBomb.tla", "TraceBomb.cfg", [tf])

    def died(rec):
        if rec.get("returned"):
            rec["returned"] = False
            return True
        return False
    cov["binding_selftest"] = core.binding_selftest(ctx, "TraceBomb.tla", "TraceBomb.cfg", tf, died, "C16", "one nesting-bomb call is logged as not returned")
    violations = []
    for r in results:
        for t in r["tuples"]:
            if t[0] == "VIOLATION":
                rec = recs[t[2] - 1]
                v = dict(property=t[1], kind="bomb", limit=rec["limit"], record=rec,
                         input_text="shape=%s n=%d closed=%s entry=%s" % (rec["shape"], rec["n"], rec["closed"], rec["entry"]),
                         detail="TraceBomb.tla: returned=%s maxlvl=%s cls=%r %s" % (rec["returned"], rec["maxlvl"], rec["cls"], rec.get("died", "")))
                v["key"] = "%s|bomb|%s|%d|%s|%s|%d" % (t[1], rec["shape"], rec["n"], rec["closed"], rec["entry"], rec["limit"])
                violations.append(v)
    cov.update(
        evaluations=len(recs),
        distinct_nontrivial=len([r for r in recs if r["n"] > cap]),
        rule="model: all sequences of chunks {[ ] } 1 space {\"k\":} up to the bound for Cap in {2,3(,4)}: frame stack <= 2*Cap+4, level <= Cap+1, path <= Cap+1, nothing deeper than Cap+1 accepted. real code: shapes %s x units {cap-1, cap, cap+1, cap+2, 1e5, 1e6, 1e7%s} x open/closed x limits {0, half%s} x entries {Detect, DetectReader, detector funcs}, each in a child process with a 32 MiB maximum stack; the hook reports the maximum recursion level; records validated by TraceBomb.tla (closed form of the model with the real cap). non-trivial = nesting deeper than the cap" % (BOMB_SHAPES, "" if quick else ", 5e7", "" if quick else ", 2^32-1"),
        exhaustive=False,
        max_units=max(r["n"] for r in recs),
        died=[r for r in recs if not r["returned"]][:5],
        samples=recs[:3] + recs[-3:],
    )
    # C16 owns only its own invariant names; C08/C09 closed-form checks on bombs are reported under C16's evidence
    # as cross-checks but decided by their own properties.
    own = [v for v in violations if v["property"] == "C16"]
    cov["cross_check_failures_other_properties"] = [v["key"] for v in violations if v["property"] != "C16"][:10]
    return core.finish(ctx, own, cov, ["child process death or timeout counts as 'call without return'", "closed form instantiates invariants established by TLC for small caps"])


REGISTRY = {"C08": c08, "C09": c09, "C10": c10, "C16": c16}
