------------------------------ MODULE TraceTar ------------------------------
(***************************************************************************)
(* C18 trace validation.                                                   *)
(*  {"ev":"tar","id":k,"block":[512 bytes],"accepted":b,"result":type,     *)
(*   "exempt":b}            a header written by archive/tar                *)
(*  {"ev":"corrupt","id":k,"pos":p,"tar_vals":[..],"tar_detect_vals":[..]} *)
(*                          all 255 other values at 0-based position p of  *)
(*                          block k: the values for which the Tar detector *)
(*                          / Detect still said tar                        *)
(***************************************************************************)
EXTENDS Tar, TLC, Json, IOUtils
\* the root formats consulted before tar in the pinned tree (tree.go:20-21: "tar sits after exe/elf/ar and
\* before the remaining root formats"): only these may claim a conforming archive
HigherThanTar == {"image/x-xpixmap", "application/x-7z-compressed", "application/zip", "application/pdf", "application/vnd.fdf",
                  "application/x-ole-storage", "application/postscript", "image/vnd.adobe.photoshop", "application/pkcs7-signature",
                  "application/ogg", "image/png", "image/jpeg", "image/jxl", "image/jp2", "image/jpx", "image/jpm", "image/jxs",
                  "image/gif", "image/webp", "application/vnd.microsoft.portable-executable", "application/x-elf",
                  "application/x-archive"}
Log == ndJsonDeserialize(IOEnv.TRACE)
VARIABLE l
E == Log[l]
Check(name, what, cond) == IF cond THEN TRUE ELSE PrintT(<<"VIOLATION", name, l, what>>)
Init == l = 1 /\ TLCSet(42, 1)
Next == /\ l <= Len(Log)
        /\ IF E.ev = "tar"
           THEN /\ (IF WriterConforms(E.block) THEN TRUE ELSE PrintT(<<"INFO", "writer_sum_not_unsigned", l>>))
                /\ (IF TarAccept(E.block) = E.accepted THEN TRUE ELSE PrintT(<<"DRIFT", l>>))
                /\ Check("C18", "conforming tar header rejected by the detector", WriterConforms(E.block) /\ ~HasGpkg(E.block) => E.accepted)
                /\ Check("C18", "conforming tar archive not reported as tar", (WriterConforms(E.block) /\ ~HasGpkg(E.block)) => (E.result = "application/x-tar" \/ E.rootchild \in HigherThanTar))
           ELSE /\ Check("C18", "corrupted header still accepted by the detector", (E.pos < 148 \/ E.pos > 155) => E.tar_vals = <<>>)
                /\ Check("C18", "corrupted header still reported as tar", (E.pos < 148 \/ E.pos > 155) => E.tar_detect_vals = <<>>)
        /\ l' = l + 1 /\ TLCSet(42, l + 1)
Spec == Init /\ [][Next]_l
Accepted == TLCGet(42) = Len(Log) + 1
=============================================================================
