---------------------------- MODULE MC_JsonBytes ----------------------------
(* Exhaustive instances of JsonScan over a 17-symbol JSON-relevant byte alphabet. *)
EXTENDS JsonScan, Json

\* space [ ] { } , : " \ u 1 - . e n l x
ByteAlphabet == {32, 91, 93, 123, 125, 44, 58, 34, 92, 117, 49, 45, 46, 101, 110, 108, 120}
ByteChunks == { <<c>> : c \in ByteAlphabet }
OnlyJson == {"json"}

\* conformance vectors: one line per terminal state (no VIEW: every string is a vector)
DumpInv == Terminal => PrintT(ToJson(Vec))

\* design check: hide history, abstract key contents (no queries in this instance)
VBuf(b) == IF b = <<>> THEN <<>> ELSE <<0>>
View == <<SubSeq(inp, ib + 1, Len(inp)), eof, ib, Len(inp),
          [i \in 1..Len(stk) |-> [stk[i] EXCEPT !.buf = VBuf(stk[i].buf)]],
          Len(path), first, qsat, done, ok, ref.s, ref.r, SawOpen, LooksLike>>
=============================================================================
