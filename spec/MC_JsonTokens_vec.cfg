SPECIFICATION Spec
CONSTANTS
  Chunks <- TokChunks
  MaxLen = 200
  MaxChunks = 8
  Cap = 4096
  QTypes <- AllQ
INVARIANTS DumpInv C10Pos C10Neg C08Whole C08Trunc C09Whole C09Trunc PathBalanced PathBounded IbIsCursor
CHECK_DEADLOCK FALSE
