-------------------------------- MODULE Tar --------------------------------
(***************************************************************************)
(* C18: tar detection (internal/magic/archive.go:81-163) on the first      *)
(* 512-byte block.                                                         *)
(*   ParseOctal : trim spaces / NULs, stop at NUL, reject non-octal        *)
(*   Chksum     : unsigned and signed byte sums with bytes 148..155 (0-    *)
(*                based) read as spaces                                    *)
(*   TarAccept  : no "/gpkg-1\0" in the name field, recorded sum parses    *)
(*                and equals one of the two sums                           *)
(* Lemma (CorruptionLemma): if the recorded sum equals the unsigned sum,   *)
(* replacing one byte outside the checksum field by a different value      *)
(* makes both new sums differ from the recorded one.  With d = v' - v the  *)
(* new unsigned sum is U + d and the new signed sum is U + d - 256 k' for  *)
(* the number k' >= 0 of bytes >= 0x80; U + d = U needs d = 0, and         *)
(* U + d - 256 k' = U needs d = 256 k' with 0 < |d| <= 255: impossible.    *)
(***************************************************************************)
EXTENDS Integers, Sequences, SequencesExt, FiniteSets

SP == 32
IsPad(b) == b = SP \/ b = 0
RECURSIVE TrimL(_)
TrimL(s) == IF s # <<>> /\ IsPad(s[1]) THEN TrimL(Tail(s)) ELSE s
RECURSIVE TrimR(_)
TrimR(s) == IF s # <<>> /\ IsPad(s[Len(s)]) THEN TrimR(SubSeq(s, 1, Len(s) - 1)) ELSE s
OctStep(a, b) == IF a.stop \/ a.bad THEN a
                 ELSE IF b = 0 THEN [a EXCEPT !.stop = TRUE]
                 ELSE IF b < 48 \/ b > 55 THEN [a EXCEPT !.bad = TRUE]
                 ELSE [a EXCEPT !.v = a.v * 8 + (b - 48)]
\* -1 when the field is empty or not octal
ParseOctal(f) == LET t == TrimR(TrimL(f)) IN
                 IF t = <<>> THEN -1
                 ELSE LET r == FoldLeft(OctStep, [v |-> 0, stop |-> FALSE, bad |-> FALSE], t) IN
                      IF r.bad THEN -1 ELSE r.v
InChk(i) == i >= 149 /\ i <= 156            \* 1-based positions of the checksum field
Unsigned(blk) == FoldLeft(LAMBDA acc, i : acc + (IF InChk(i) THEN SP ELSE blk[i]), 0, [i \in 1..512 |-> i])
Signed(blk) == FoldLeft(LAMBDA acc, i : acc + (IF InChk(i) THEN SP ELSE (IF blk[i] >= 128 THEN blk[i] - 256 ELSE blk[i])), 0, [i \in 1..512 |-> i])
Gpkg == <<47, 103, 112, 107, 103, 45, 49, 0>>       \* "/gpkg-1\0"
HasGpkg(blk) == \E i \in 1..(100 - 7) : SubSeq(blk, i, i + 7) = Gpkg
Recorded(blk) == ParseOctal(SubSeq(blk, 149, 156))
TarAccept(blk) == /\ Len(blk) >= 512
                  /\ ~HasGpkg(blk)
                  /\ Recorded(blk) # -1
                  /\ (Recorded(blk) = Unsigned(blk) \/ Recorded(blk) = Signed(blk))
\* what a conforming writer guarantees
WriterConforms(blk) == Recorded(blk) = Unsigned(blk)

\* the arithmetic lemma, in the form TLC enumerates (v, v' byte values, k' high bytes after the change)
CorruptionLemma == \A v \in 0..255 : \A w \in 0..255 : \A k \in 0..512 :
                      v # w => ((w - v) # 0 /\ (w - v) # 256 * k)
=============================================================================
