----------------------------- MODULE TraceText -----------------------------
(***************************************************************************)
(* Trace validation for the text / charset properties (C07, C11): every    *)
(* recorded detection carries the examined header (first `limit` bytes),   *)
(* the bare type names of the result chain (leaf first) and the charset    *)
(* parameter of the result.  The byte-class predicate and the UTF-8        *)
(* automaton of Charset.tla are evaluated on the logged bytes.             *)
(***************************************************************************)
EXTENDS Charset, TLC, Json, IOUtils
Log == ndJsonDeserialize(IOEnv.TRACE)
VARIABLE l
E == Log[l]
Check(name, what, cond) == IF cond THEN TRUE ELSE PrintT(<<"VIOLATION", name, l, what>>)
InChain(c, x) == \E i \in 1..Len(c) : c[i] = x
Init == l = 1 /\ TLCSet(42, 1)
Next == /\ l <= Len(Log)
        /\ Check("C07", "text/plain in the chain of a header with binary bytes and no mark", InChain(E.chain, "text/plain") => TextRef(E.raw))
        /\ Check("C07", "text header left unclassified", TextRef(E.raw) => Len(E.chain) > 1)
        /\ Check("C11", "charset of bare text/plain", E.chain[1] = "text/plain" => C11Holds(E.raw, E.cs))
        \* sniffing also serves text/html and text/xml leaves; the generator marks the documents it built WITHOUT a declaration
        /\ Check("C11", "charset of an undeclared text/html or text/xml leaf", (E.note = "undeclared-markup" /\ E.chain[1] \in {"text/html", "text/xml"}) => C11Holds(E.raw, E.cs))
        /\ l' = l + 1 /\ TLCSet(42, l + 1)
Spec == Init /\ [][Next]_l
Accepted == TLCGet(42) = Len(Log) + 1
=============================================================================
