----------------------------- MODULE TraceTree -----------------------------
(***************************************************************************)
(* Trace validation of sequential executions against the REAL detector     *)
(* tree (C03 C14 C04 C02).  The first record dumps the tree of the running *)
(* package; extend / reset records change it as Extend does (prepend under *)
(* the parent); every detect record carries the consult events of the walk *)
(* (child id, verdict) in order, the leaf, the result chain read back      *)
(* through the public accessors, independent re-invocations of detectors   *)
(* outside the walk ("recheck"), and media-type facts computed with the    *)
(* standard library on the returned value.                                 *)
(*   tree   : nodes = seq of [parent, children, mime, ext], node 1 = root  *)
(*   extend : parent p, mime, ext   (new node id = number of nodes + 1)    *)
(*   reset  : the children captured at start are restored                  *)
(*   detect : hid (identity of the examined header), limit, consults,      *)
(*            leaf, chain = seq of <<type, ext>> leaf first, recheck,      *)
(*            parse_ok, base, params, anc_params, err, buf_unchanged       *)
(***************************************************************************)
EXTENDS Integers, Sequences, SequencesExt, FiniteSets, TLC, Json, IOUtils

Log == ndJsonDeserialize(IOEnv.TRACE)

VARIABLES l, nodes, init, memoKey, memo, memoChain, rp      \* rp: reference path of the record just consumed (computed once)
vars == <<l, nodes, init, memoKey, memo, memoChain, rp>>

E == Log[l]
Check(name, what, cond) == IF cond THEN TRUE ELSE PrintT(<<"VIOLATION", name, l, what>>)
Children(n) == nodes[n].children

(* ---- reference: the first-match walk replayed over the logged consults ---- *)
\* returns the path <<root, ..., leaf>> if the consult sequence cs is exactly the walk
\* (children consulted in priority order, descent into the first acceptor, every child
\* of the last node consulted and rejected), and <<>> otherwise
WalkStep(a, c) ==
    IF ~a.ok THEN a
    ELSE IF a.i > Len(Children(a.n)) THEN [a EXCEPT !.ok = FALSE]          \* consulted past the last child
    ELSE IF c[1] # Children(a.n)[a.i] THEN [a EXCEPT !.ok = FALSE]         \* skipped, reordered or re-entered
    ELSE IF c[2] = 1 THEN [n |-> c[1], i |-> 1, path |-> Append(a.path, c[1]), ok |-> TRUE]
    ELSE [a EXCEPT !.i = a.i + 1]
WalkPath(cs) ==
    LET r == FoldLeft(WalkStep, [n |-> 1, i |-> 1, path |-> <<1>>, ok |-> TRUE], cs) IN
    IF r.ok /\ r.i > Len(Children(r.n)) THEN r.path ELSE <<>>

\* reference: first-match deepest path from a table of independent verdicts rc = seq of <<node, 0/1>>
Verdict(rc, n) == \E i \in 1..Len(rc) : rc[i][1] = n /\ rc[i][2] = 1
RECURSIVE RefFrom(_, _, _)
RefFrom(rc, n, acc) ==
    LET okc == {i \in 1..Len(Children(n)) : Verdict(rc, Children(n)[i])} IN
    IF okc = {} THEN acc
    ELSE LET c == Children(n)[CHOOSE i \in okc : \A j \in okc : i <= j] IN RefFrom(rc, c, Append(acc, c))
RefPath(rc) == RefFrom(rc, 1, <<1>>)
OnPath(n, p) == \E i \in 1..Len(p) : p[i] = n
NamesOf(path) == [i \in 1..Len(path) |-> <<nodes[path[i]].mime, nodes[path[i]].ext>>]
RootName == "application/octet-stream"
CharsetTypes == {"text/plain", "text/html", "text/xml"}
PairsOf(cs) == {<<cs[i][1], cs[i][2]>> : i \in 1..Len(cs)}
Functional(S) == Cardinality({a[1] : a \in S}) = Cardinality(S)

Init == /\ l = 1 /\ nodes = <<>> /\ init = <<>> /\ memoKey = <<>> /\ memo = {} /\ memoChain = "" /\ rp = <<>>
        /\ TLCSet(42, 1)
Adv == l' = l + 1 /\ TLCSet(42, l + 1)

TTree == /\ l <= Len(Log) /\ E.ev = "tree"
         /\ nodes' = E.nodes /\ init' = E.nodes
         /\ memoKey' = <<>> /\ memo' = {} /\ memoChain' = "" /\ rp' = <<>> /\ Adv

TReset == /\ l <= Len(Log) /\ E.ev = "reset"
          /\ nodes' = init /\ memoKey' = <<>> /\ memo' = {} /\ memoChain' = "" /\ rp' = <<>> /\ Adv /\ UNCHANGED init

\* Extend: the new node is prepended to its parent's children (mime.go:174-192)
TExtend == /\ l <= Len(Log) /\ E.ev = "extend"
           /\ LET id == Len(nodes) + 1 IN
                /\ Check("C14", "new node id", E.node = id)
                /\ nodes' = Append([nodes EXCEPT ![E.parent].children = <<id>> \o @],
                                   [parent |-> E.parent, children |-> <<>>, mime |-> E.mime, ext |-> E.ext])
           /\ memoKey' = <<>> /\ memo' = {} /\ memoChain' = "" /\ rp' = <<>> /\ Adv /\ UNCHANGED init

TDetect ==
    /\ l <= Len(Log) /\ E.ev = "detect"
    /\ LET key == <<E.hid, E.limit, Len(nodes)>>
           m0 == IF key = memoKey THEN memo ELSE {}
           path == WalkPath(E.consults)
           all == m0 \cup PairsOf(E.consults) \cup PairsOf(E.recheck)
           RC == IF E.recheck = <<>> THEN E.consults ELSE E.recheck     \* (the suite trace has no independent verdicts)
           leafn == rp'[Len(rp')]
       IN
       /\ rp' = RefPath(RC)
       /\ IF E.err
          THEN \* C02 / C05: with an error the value is exactly application/octet-stream
               /\ Check("C02", "error value", E.chain = << <<RootName, "">> >> /\ E.params = <<>>)
          ELSE
               \* C03: the reported hierarchy is the first-match deepest path, recomputed here from the
               \* independent detector verdicts (recheck), not from the walk's own consults
               /\ Check("C03", "reported chain is not the first-match path", E.chain = Reverse(NamesOf(rp')))
               \* C14: on a tree enlarged by Extend the same walk applies; a mismatch that involves an extension
               \* (a node registered after the dump) is also a violation of "classified under the extension ... never
               \* under an older sibling ... exactly as before"
               /\ Check("C14", "classification on the extended tree is not the first-match path",
                        (\E i \in 1..Len(rp') : rp'[i] > Len(init)) \/ (E.leaf > Len(init)) => E.chain = Reverse(NamesOf(rp')))
               /\ Check("C03", "leaf", E.leaf = leafn)
               \* C03: a format is consulted only after all of its ancestors matched
               /\ Check("C03", "a format was consulted although an ancestor had not matched",
                        \A i \in 1..Len(E.consults) : OnPath(nodes[E.consults[i][1]].parent, rp'))
               \* C04: the walk's own verdicts agree with the independent ones (checked by Functional below);
               \* the exact consult sequence is an implementation detail: a difference is drift
               /\ (IF path # <<>> THEN TRUE ELSE PrintT(<<"DRIFT", l, "consult sequence is not the plain first-match walk">>))
               \* C02: valid, registered, rooted, parameters only where allowed
               /\ Check("C02", "parses", E.parse_ok)
               /\ Check("C02", "registered base", E.base = nodes[leafn].mime)
               /\ Check("C02", "only charset", ToSet(E.params) \subseteq {"charset"})
               /\ Check("C02", "charset only on text types", E.params # <<>> => E.base \in CharsetTypes)
               /\ Check("C02", "ancestors carry no parameters", ~E.anc_params)
               /\ Check("C02", "rooted", E.chain[Len(E.chain)] = <<RootName, "">>)
       \* C04: verdicts are a function of (header, limit, node); results of (header, limit, tree)
       /\ Check("C04", "verdict depends on more than header and limit", Functional(all))
       /\ Check("C04", "result differs for the same header, limit and tree", (key = memoKey /\ memoChain # "") => E.full = memoChain)
       /\ Check("C04", "caller buffer modified", E.buf_unchanged)
       /\ memoKey' = key /\ memo' = all /\ memoChain' = E.full
    /\ Adv /\ UNCHANGED <<nodes, init>>

Next == TTree \/ TReset \/ TExtend \/ TDetect
Spec == Init /\ [][Next]_vars
Accepted == TLCGet(42) = Len(Log) + 1
=============================================================================
