SPECIFICATION Spec
CONSTANTS
  Alphabet <- A07
  MaxLen = 4
INVARIANTS DesignC11 DesignC07 DumpInv
CHECK_DEADLOCK FALSE
