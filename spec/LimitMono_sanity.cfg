SPECIFICATION Spec
CONSTANTS
  N = 2
  MaxK = 3
  MaxL = 4
  AllowBroken = TRUE
INVARIANTS C17
CHECK_DEADLOCK FALSE
