------------------------------ MODULE JsonRef ------------------------------
(***************************************************************************)
(* Reference recognisers for JSON, written from the property statements    *)
(* (C08, C09, C10, C13), NOT from the implementation.                      *)
(*                                                                         *)
(*  - strict: RFC 8259 push-down recogniser (exact number grammar, escapes,*)
(*    no control bytes in strings, no trailing commas); top level must be  *)
(*    an object or an array.                                               *)
(*  - relaxed: the structural recogniser of C09 (brackets balanced and     *)
(*    nested, members string:value, single commas, one optional trailing   *)
(*    comma, whitespace around); lexing is generous.                       *)
(*  - tracker: top-level-member classification for C10, independent of any *)
(*    key-path stack.                                                      *)
(* Bytes are integers 0..255; byte strings are sequences.                  *)
(***************************************************************************)
EXTENDS Naturals, Sequences, FiniteSets

LBRACK == 91   RBRACK == 93   LBRACE == 123   RBRACE == 125
COMMA == 44    COLON == 58    QUOTE == 34     BSLASH == 92
MINUS == 45    PLUS == 43     DOT == 46
IsSpace(c) == c \in {32, 9, 13, 10}
IsDigit(c) == c \in 48..57
IsXDigit(c) == IsDigit(c) \/ c \in 97..102 \/ c \in 65..70
IsExpCh(c) == c \in {101, 69}
EscChars == {34, 92, 47, 98, 102, 110, 114, 116}
WTrue == <<116,114,117,101>>  WFalse == <<102,97,108,115,101>>  WNull == <<110,117,108,108>>

\* ref state: [st (stack of "A"/"O"), ph, sub, j, maxd]
RInit == [st |-> <<>>, ph |-> "start", sub |-> "", j |-> 0, maxd |-> 0]
Dead(r) == [r EXCEPT !.ph = "dead"]
NumCh(c) == IsDigit(c) \/ c \in {MINUS, PLUS, DOT, 101, 69}
Max(a, b) == IF a > b THEN a ELSE b
Pop(st) == SubSeq(st, 1, Len(st) - 1)

\* a value has just ended; c is the next byte
AfterValue(r, c, strict) ==
    IF IsSpace(c) THEN r
    ELSE IF r.st = <<>> THEN Dead(r)
    ELSE LET top == r.st[Len(r.st)] IN
         IF c = COMMA THEN [r EXCEPT !.ph = IF top = "A" THEN (IF strict THEN "val" ELSE "valc")
                                                        ELSE (IF strict THEN "key" ELSE "keyc")]
         ELSE IF (c = RBRACK /\ top = "A") \/ (c = RBRACE /\ top = "O")
              THEN [r EXCEPT !.st = Pop(r.st), !.ph = IF Pop(r.st) = <<>> THEN "done" ELSE "after"]
         ELSE Dead(r)

\* a value is expected; closeOK: "]" may close the array here
ExpectValue(r, c, strict, closeOK) ==
    IF IsSpace(c) THEN r
    ELSE IF c = LBRACK THEN [r EXCEPT !.st = Append(r.st, "A"), !.ph = "valc", !.maxd = Max(Len(r.st) + 1, r.maxd)]
    ELSE IF c = LBRACE THEN [r EXCEPT !.st = Append(r.st, "O"), !.ph = "keyc", !.maxd = Max(Len(r.st) + 1, r.maxd)]
    ELSE IF closeOK /\ c = RBRACK /\ r.st # <<>> /\ r.st[Len(r.st)] = "A"
         THEN [r EXCEPT !.st = Pop(r.st), !.ph = IF Pop(r.st) = <<>> THEN "done" ELSE "after"]
    ELSE IF r.st = <<>> THEN Dead(r)   \* top-level scalars are not "object or array"
    ELSE IF c = QUOTE THEN [r EXCEPT !.ph = "str", !.sub = "v"]
    ELSE IF strict THEN
         IF c = MINUS THEN [r EXCEPT !.ph = "num", !.sub = "minus"]
         ELSE IF c = 48 THEN [r EXCEPT !.ph = "num", !.sub = "zero"]
         ELSE IF IsDigit(c) THEN [r EXCEPT !.ph = "num", !.sub = "int"]
         ELSE IF c = 116 THEN [r EXCEPT !.ph = "lit", !.sub = "t", !.j = 1]
         ELSE IF c = 102 THEN [r EXCEPT !.ph = "lit", !.sub = "f", !.j = 1]
         ELSE IF c = 110 THEN [r EXCEPT !.ph = "lit", !.sub = "n", !.j = 1]
         ELSE Dead(r)
    ELSE IF NumCh(c) THEN [r EXCEPT !.ph = "num", !.sub = "any"]
         ELSE IF c = 116 THEN [r EXCEPT !.ph = "lit", !.sub = "t", !.j = 1]
         ELSE IF c = 102 THEN [r EXCEPT !.ph = "lit", !.sub = "f", !.j = 1]
         ELSE IF c = 110 THEN [r EXCEPT !.ph = "lit", !.sub = "n", !.j = 1]
         ELSE Dead(r)

LitWord(s) == IF s = "t" THEN WTrue ELSE IF s = "f" THEN WFalse ELSE WNull

RStep(r, c, strict) ==
    CASE r.ph = "dead" -> r
      [] r.ph = "start" -> IF IsSpace(c) THEN r ELSE IF c \in {LBRACK, LBRACE} THEN ExpectValue(r, c, strict, FALSE) ELSE Dead(r)
      [] r.ph = "val"  -> ExpectValue(r, c, strict, FALSE)
      [] r.ph = "valc" -> ExpectValue(r, c, strict, TRUE)
      [] r.ph \in {"key", "keyc"} ->
            IF IsSpace(c) THEN r
            ELSE IF c = QUOTE THEN [r EXCEPT !.ph = "str", !.sub = "k"]
            ELSE IF r.ph = "keyc" /\ c = RBRACE
                 THEN [r EXCEPT !.st = Pop(r.st), !.ph = IF Pop(r.st) = <<>> THEN "done" ELSE "after"]
            ELSE Dead(r)
      [] r.ph = "str" ->
            IF c = QUOTE THEN [r EXCEPT !.ph = IF r.sub = "k" THEN "colon" ELSE "after"]
            ELSE IF c = BSLASH THEN [r EXCEPT !.ph = "esc"]
            ELSE IF strict /\ c < 32 THEN Dead(r) ELSE r
      [] r.ph = "esc" ->
            IF strict THEN (IF c \in EscChars THEN [r EXCEPT !.ph = "str"] ELSE IF c = 117 THEN [r EXCEPT !.ph = "uni", !.j = 0] ELSE Dead(r))
            ELSE [r EXCEPT !.ph = "str"]
      [] r.ph = "uni" -> IF IsXDigit(c) THEN (IF r.j = 3 THEN [r EXCEPT !.ph = "str", !.j = 0] ELSE [r EXCEPT !.j = r.j + 1]) ELSE Dead(r)
      [] r.ph = "colon" -> IF IsSpace(c) THEN r ELSE IF c = COLON THEN [r EXCEPT !.ph = "val"] ELSE Dead(r)
      [] r.ph = "after" -> AfterValue(r, c, strict)
      [] r.ph = "done" -> IF IsSpace(c) THEN r ELSE Dead(r)
      [] r.ph = "lit" ->
            LET w == LitWord(r.sub) IN
            IF c = w[r.j + 1] THEN (IF r.j + 1 = Len(w) THEN [r EXCEPT !.ph = "after", !.j = 0] ELSE [r EXCEPT !.j = r.j + 1]) ELSE Dead(r)
      [] r.ph = "num" ->
            IF ~strict THEN (IF NumCh(c) THEN r ELSE AfterValue([r EXCEPT !.ph = "after"], c, strict))
            ELSE CASE r.sub = "minus" -> IF c = 48 THEN [r EXCEPT !.sub = "zero"] ELSE IF IsDigit(c) THEN [r EXCEPT !.sub = "int"] ELSE Dead(r)
                   [] r.sub = "zero" -> IF c = DOT THEN [r EXCEPT !.sub = "dot"] ELSE IF IsExpCh(c) THEN [r EXCEPT !.sub = "e"] ELSE IF IsDigit(c) THEN Dead(r) ELSE AfterValue([r EXCEPT !.ph = "after"], c, strict)
                   [] r.sub = "int" -> IF IsDigit(c) THEN r ELSE IF c = DOT THEN [r EXCEPT !.sub = "dot"] ELSE IF IsExpCh(c) THEN [r EXCEPT !.sub = "e"] ELSE AfterValue([r EXCEPT !.ph = "after"], c, strict)
                   [] r.sub = "dot" -> IF IsDigit(c) THEN [r EXCEPT !.sub = "frac"] ELSE Dead(r)
                   [] r.sub = "frac" -> IF IsDigit(c) THEN r ELSE IF IsExpCh(c) THEN [r EXCEPT !.sub = "e"] ELSE AfterValue([r EXCEPT !.ph = "after"], c, strict)
                   [] r.sub = "e" -> IF c \in {PLUS, MINUS} THEN [r EXCEPT !.sub = "esign"] ELSE IF IsDigit(c) THEN [r EXCEPT !.sub = "exp"] ELSE Dead(r)
                   [] r.sub = "esign" -> IF IsDigit(c) THEN [r EXCEPT !.sub = "exp"] ELSE Dead(r)
                   [] r.sub = "exp" -> IF IsDigit(c) THEN r ELSE AfterValue([r EXCEPT !.ph = "after"], c, strict)

RLive(r) == r.ph # "dead"
RAccepting(r) == r.ph = "done"
\* "strict-live" additionally requires that an incomplete number/literal/escape can
\* still be completed: every non-dead state of the strict recogniser is a prefix of a
\* valid document by construction (each state has a completing continuation).

(***************************************************************************)
(* C10: top-level-member tracker.  Driven by the strict recogniser.        *)
(***************************************************************************)
GeoKey == <<116,121,112,101>>                       \* type
GeoVals == { <<70,101,97,116,117,114,101>>,
             <<70,101,97,116,117,114,101,67,111,108,108,101,99,116,105,111,110>>,
             <<80,111,105,110,116>>,
             <<76,105,110,101,83,116,114,105,110,103>>,
             <<80,111,108,121,103,111,110>>,
             <<77,117,108,116,105,80,111,105,110,116>>,
             <<77,117,108,116,105,76,105,110,101,83,116,114,105,110,103>>,
             <<77,117,108,116,105,80,111,108,121,103,111,110>>,
             <<71,101,111,109,101,116,114,121,67,111,108,108,101,99,116,105,111,110>> }
HarKey == <<108,111,103>>                           \* log
HarSubs == { <<118,101,114,115,105,111,110>>, <<99,114,101,97,116,111,114>>, <<101,110,116,114,105,101,115>> }
GltfKey == <<97,115,115,101,116>>                   \* asset
GltfSub == <<118,101,114,115,105,111,110>>          \* version
GltfVals == { <<49,46,48>>, <<50,46,48>> }

\* tracker state: k1 = current top-level key, k2 = current key inside the object that is
\* the value of k1, buf = raw content of the string being read, flags.
TInit == [k1 |-> <<>>, k2 |-> <<>>, buf |-> <<>>, geo |-> FALSE, har |-> FALSE, gltf |-> FALSE]

OO == <<"O", "O">>
IsPfxSt(p, s) == Len(p) <= Len(s) /\ SubSeq(s, 1, Len(p)) = p

\* a value of kind kd ("str" with content b, or "other") has completed as a direct
\* member value at depth d of the stack st
ValueDone(t, st, d, kd, b) ==
    [t EXCEPT
       !.geo  = @ \/ (d = 1 /\ st[1] = "O" /\ t.k1 = GeoKey /\ kd = "str" /\ b \in GeoVals),
       !.har  = @ \/ (d = 2 /\ SubSeq(st, 1, 2) = OO /\ t.k1 = HarKey /\ t.k2 \in HarSubs),
       !.gltf = @ \/ (d = 2 /\ SubSeq(st, 1, 2) = OO /\ t.k1 = GltfKey /\ t.k2 = GltfSub /\ kd = "str" /\ b \in GltfVals)]

\* r: recogniser state before byte c, r2: after
TStep(t, r, c, r2) ==
    IF r2.ph = "dead" \/ r.ph = "dead" THEN t
    ELSE
    LET d  == Len(r.st)
        d2 == Len(r2.st)
        \* 1. a number ends at the delimiter c
        t1 == IF r.ph = "num" /\ r2.ph # "num" /\ d >= 1 THEN ValueDone(t, r.st, d, "other", <<>>) ELSE t
        \* 2. effect of c itself
        t2 == CASE r.ph \in {"key", "keyc", "val", "valc"} /\ c = QUOTE -> [t1 EXCEPT !.buf = <<>>]
                [] r.ph \in {"str", "esc", "uni"} /\ r2.ph \in {"str", "esc", "uni"} -> [t1 EXCEPT !.buf = Append(@, c)]
                [] r.ph = "str" /\ c = QUOTE /\ r.sub = "k" ->
                       IF d = 1 THEN [t1 EXCEPT !.k1 = t1.buf, !.k2 = <<>>]
                       ELSE IF d = 2 /\ r.st = OO THEN [t1 EXCEPT !.k2 = t1.buf]
                       ELSE t1
                [] r.ph = "str" /\ c = QUOTE /\ r.sub = "v" -> ValueDone(t1, r.st, d, "str", t1.buf)
                [] r.ph = "lit" /\ r2.ph = "after" -> ValueDone(t1, r.st, d, "other", <<>>)
                [] OTHER -> t1
        \* 3. a container closes: it is a completed value of the enclosing level
        t3 == IF d2 = d - 1 /\ d2 >= 1 THEN ValueDone(t2, r2.st, d2, "other", <<>>) ELSE t2
        \* 4. key bookkeeping on "," and on leaving / entering levels
        t4 == IF r.ph \in {"after", "num"} /\ c = COMMA /\ d = 1 THEN [t3 EXCEPT !.k1 = <<>>, !.k2 = <<>>]
              ELSE IF r.ph \in {"after", "num"} /\ c = COMMA /\ d = 2 THEN [t3 EXCEPT !.k2 = <<>>]
              ELSE IF d2 = 1 /\ d = 2 THEN [t3 EXCEPT !.k2 = <<>>]
              ELSE IF d2 = 2 /\ d = 1 THEN [t3 EXCEPT !.k2 = <<>>]
              ELSE t3
    IN t4

\* deciding members that have started but are not complete at this point
GeoPend(t, r)  == r.ph # "dead" /\ Len(r.st) = 1 /\ r.st[1] = "O" /\ t.k1 = GeoKey
                  /\ r.ph \notin {"after", "key", "keyc", "done"}
HarPend(t, r)  == r.ph # "dead" /\ Len(r.st) >= 2 /\ SubSeq(r.st, 1, 2) = OO /\ t.k1 = HarKey /\ t.k2 \in HarSubs
                  /\ (Len(r.st) > 2 \/ r.ph \notin {"after", "key", "keyc"})
GltfPend(t, r) == r.ph # "dead" /\ Len(r.st) = 2 /\ r.st = OO /\ t.k1 = GltfKey /\ t.k2 = GltfSub
                  /\ r.ph \notin {"after", "key", "keyc"}

Class(g, h, l) == IF g THEN "geo" ELSE IF h THEN "har" ELSE IF l THEN "gltf" ELSE "json"
\* classes the statement allows for a header in this tracker state
AllowedClasses(t, r) ==
    { Class(t.geo \/ pg, t.har \/ ph, t.gltf \/ pl) :
        pg \in (IF GeoPend(t, r) THEN BOOLEAN ELSE {FALSE}),
        ph \in (IF HarPend(t, r) THEN BOOLEAN ELSE {FALSE}),
        pl \in (IF GltfPend(t, r) THEN BOOLEAN ELSE {FALSE}) }

(***************************************************************************)
(* Folding both recognisers and the tracker over a byte string.            *)
(***************************************************************************)
\* combined reference state
RefInit == [s |-> RInit, r |-> RInit, t |-> TInit]
RefStep(ref, c) ==
    LET s2 == RStep(ref.s, c, TRUE) IN
    [s |-> s2, r |-> RStep(ref.r, c, FALSE), t |-> TStep(ref.t, ref.s, c, s2)]

RECURSIVE RefFold(_, _, _)
RefFold(ref, s, i) == IF i > Len(s) THEN ref ELSE RefFold(RefStep(ref, s[i]), s, i + 1)
RefOf(s) == RefFold(RefInit, s, 1)
=============================================================================
