SPECIFICATION Spec
CONSTANTS
  Mode = "docs"
  LabelSet <- QuickLabels
INVARIANTS TagInv ContentInv DumpDocs
CHECK_DEADLOCK FALSE
