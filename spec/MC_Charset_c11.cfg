SPECIFICATION Spec
CONSTANTS
  Alphabet <- A11
  MaxLen = 4
INVARIANTS DesignC11 DesignC07 DumpInv
CHECK_DEADLOCK FALSE
