------------------------------ MODULE JsonScan ------------------------------
(***************************************************************************)
(* Implementation-shaped model of internal/json/parser.go (Parse,          *)
(* consumeAny/Array/Object/String/Number/Const) as a byte-at-a-time        *)
(* push-down machine, plus jsonHelper's accept decision (text.go) and the  *)
(* pool discipline (Get / reset / Put).  One TLA+ action per branch of the *)
(* Go code; frames mirror the Go call stack:                               *)
(*   any : enter -> sp1 -> disp -> wait -> sp2     (consumeAny)            *)
(*   arr : enter -> top -> after                   (consumeArray)          *)
(*   obj : top -> gotkey -> spc -> spv -> gotval -> sep (consumeObject)    *)
(*   str : norm / esc / uni                        (consumeString)         *)
(*   num : start / int / frac / exp1 / expd        (consumeNumber)         *)
(*   const: j                                      (consumeConst)          *)
(* The model is the INTENDED design: a failed inner value fails every      *)
(* enclosing container, so the cursor never rewinds and ib is the cursor.  *)
(* The explorer reveals the input lazily (Reveal / End) so that every      *)
(* prefix-viable byte string within the bound is enumerated exactly once.  *)
(***************************************************************************)
EXTENDS JsonRef, TLC

CONSTANTS Chunks,      \* set of byte sequences the explorer may append
          MaxLen,      \* bound on Len(inp)
          MaxChunks,   \* bound on the number of chunks revealed
          Cap,         \* maxRecursion (0 = unlimited); the code uses 4096
          QTypes       \* query types explored: subset of {"json","geo","har","gltf"}

VARIABLES inp, eof, ib, stk, path, first, qsat, done, ok, ref, qt, nch

vars == <<inp, eof, ib, stk, path, first, qsat, done, ok, ref, qt, nch>>

TokInvalid == 0 TokNull == 2 TokTrue == 4 TokFalse == 8 TokNumber == 16 TokString == 32 TokArray == 64 TokObject == 128

\* the queries table of parser.go:15-43 (each query = path + accepted raw values, {} = any)
QuotedSet(S) == { <<QUOTE>> \o v \o <<QUOTE>> : v \in S }
QPathsOf(q) == CASE q = "json" -> <<>>
                 [] q = "geo"  -> << <<GeoKey>> >>
                 [] q = "har"  -> << <<HarKey, <<118,101,114,115,105,111,110>> >>, <<HarKey, <<99,114,101,97,116,111,114>> >>, <<HarKey, <<101,110,116,114,105,101,115>> >> >>
                 [] q = "gltf" -> << <<GltfKey, GltfSub>> >>
QValsOf(q) == CASE q = "json" -> <<>>
                [] q = "geo"  -> << QuotedSet(GeoVals) >>
                [] q = "har"  -> << {}, {}, {} >>
                [] q = "gltf" -> << QuotedSet(GltfVals) >>
QPaths == QPathsOf(qt)
QVals == QValsOf(qt)
NoQueries == Len(QPaths) = 0

Have == ib < Len(inp)
Cur == inp[ib + 1]
AtEOF == eof /\ ib = Len(inp)
Top == stk[Len(stk)]
Rest == SubSeq(stk, 1, Len(stk) - 1)
SetTop(f) == stk' = Append(Rest, f)
Push2(f, g) == stk' = Append(Append(Rest, f), g)

Frame(k, pc, lvl) == [k |-> k, pc |-> pc, lvl |-> lvl, t |-> 0, j |-> 0, got |-> FALSE, buf |-> <<>>, qm |-> 0, vs |-> 0, w |-> <<>>]

(* ---------------- the scanner ---------------- *)
Fresh(s) == /\ ib = 0 /\ stk = <<Frame("any", "enter", 0)>>
            /\ path = <<>> /\ first = TokInvalid /\ qsat = FALSE /\ done = FALSE /\ ok = FALSE
Init == /\ inp = <<>> /\ eof = FALSE /\ Fresh(0)
        /\ ref = RefInit /\ qt \in QTypes /\ nch = 0

NeedByte == ~done /\ ~Have /\ ~eof

Reveal == /\ NeedByte /\ nch < MaxChunks
          /\ \E ch \in Chunks :
               /\ Len(inp) + Len(ch) <= MaxLen
               /\ inp' = inp \o ch
               /\ ref' = RefFold(ref, ch, 1)
          /\ nch' = nch + 1
          /\ UNCHANGED <<eof, ib, stk, path, first, qsat, done, ok, qt>>

End == /\ (NeedByte \/ (done /\ ~eof)) /\ eof' = TRUE
       /\ UNCHANGED <<inp, ib, stk, path, first, qsat, done, ok, ref, qt, nch>>

\* Failure: every enclosing consumeAny that has dispatched runs its epilogue (parser.go:426-434).
Dispatched(f) == f.k = "any" /\ f.pc = "wait"
Fail == /\ done' = TRUE /\ ok' = FALSE
        /\ first' = IF Dispatched(stk[1]) THEN stk[1].t ELSE first
        /\ qsat' = (qsat \/ (NoQueries /\ \E i \in 1..Len(stk) : Dispatched(stk[i])))
        /\ UNCHANGED <<inp, eof, ib, stk, path, ref, qt, nch>>

Consume == ib' = ib + 1

\* Return ok from the top frame to its parent.
RetOK ==
    IF Len(stk) = 1 THEN /\ done' = TRUE /\ ok' = TRUE /\ stk' = stk
                    ELSE /\ stk' = Rest /\ UNCHANGED <<done, ok>>

QMatch(p) == IF \E i \in 1..Len(QPaths) : QPaths[i] = p
             THEN CHOOSE i \in 1..Len(QPaths) : QPaths[i] = p /\ \A k \in 1..(i-1) : QPaths[k] # p
             ELSE 0

RECURSIVE TrimR(_)
TrimR(s) == IF s # <<>> /\ IsSpace(s[Len(s)]) THEN TrimR(SubSeq(s, 1, Len(s) - 1)) ELSE s

StepAny ==
    LET f == Top IN
    /\ f.k = "any"
    /\ CASE f.pc = "enter" ->
              IF Cap # 0 /\ f.lvl > Cap THEN Fail
              ELSE SetTop([f EXCEPT !.pc = "sp1"]) /\ UNCHANGED <<inp, eof, ib, path, first, qsat, done, ok, ref, qt, nch>>
         [] f.pc = "sp1" ->
              IF AtEOF THEN Fail
              ELSE /\ Have
                   /\ IF IsSpace(Cur) THEN Consume /\ UNCHANGED stk ELSE SetTop([f EXCEPT !.pc = "disp"]) /\ UNCHANGED ib
                   /\ UNCHANGED <<inp, eof, path, first, qsat, done, ok, ref, qt, nch>>
         [] f.pc = "disp" ->
              /\ UNCHANGED <<inp, eof, path, first, qsat, done, ok, ref, qt, nch>>
              /\ CASE Cur = QUOTE -> Consume /\ Push2([f EXCEPT !.pc = "wait", !.t = TokString], Frame("str", "norm", f.lvl))
                   [] Cur = LBRACK -> Consume /\ Push2([f EXCEPT !.pc = "wait", !.t = TokArray], Frame("arr", "enter", f.lvl + 1))
                   [] Cur = LBRACE -> Consume /\ Push2([f EXCEPT !.pc = "wait", !.t = TokObject], Frame("obj", "top", f.lvl + 1))
                   [] Cur = 116 -> UNCHANGED ib /\ Push2([f EXCEPT !.pc = "wait", !.t = TokTrue], [Frame("const", "c", f.lvl) EXCEPT !.w = WTrue])
                   [] Cur = 102 -> UNCHANGED ib /\ Push2([f EXCEPT !.pc = "wait", !.t = TokFalse], [Frame("const", "c", f.lvl) EXCEPT !.w = WFalse])
                   [] Cur = 110 -> UNCHANGED ib /\ Push2([f EXCEPT !.pc = "wait", !.t = TokNull], [Frame("const", "c", f.lvl) EXCEPT !.w = WNull])
                   [] OTHER -> UNCHANGED ib /\ Push2([f EXCEPT !.pc = "wait", !.t = TokNumber], Frame("num", "start", f.lvl))
         [] f.pc = "wait" ->   \* child returned ok: epilogue
              /\ first' = IF f.lvl = 0 THEN f.t ELSE first
              /\ qsat' = (qsat \/ NoQueries)
              /\ SetTop([f EXCEPT !.pc = "sp2"])
              /\ UNCHANGED <<inp, eof, ib, path, done, ok, ref, qt, nch>>
         [] f.pc = "sp2" ->
              IF Have /\ IsSpace(Cur) THEN Consume /\ UNCHANGED <<inp, eof, stk, path, first, qsat, done, ok, ref, qt, nch>>
              ELSE /\ (Have \/ AtEOF) /\ RetOK /\ UNCHANGED <<inp, eof, ib, path, first, qsat, ref, qt, nch>>

StepArr ==
    LET f == Top IN
    /\ f.k = "arr"
    /\ CASE f.pc = "enter" ->
              IF AtEOF THEN /\ Fail   \* path push happens before the length check, irrelevant after failure
              ELSE /\ Have /\ path' = Append(path, <<LBRACK>>) /\ SetTop([f EXCEPT !.pc = "top"])
                   /\ UNCHANGED <<inp, eof, ib, first, qsat, done, ok, ref, qt, nch>>
         [] f.pc = "top" ->
              IF AtEOF THEN Fail
              ELSE /\ Have
                   /\ IF IsSpace(Cur) THEN Consume /\ UNCHANGED <<stk, path>>
                      ELSE IF Cur = RBRACK THEN Consume /\ path' = SubSeq(path, 1, Len(path) - 1) /\ stk' = Rest
                      ELSE UNCHANGED <<ib, path>> /\ Push2([f EXCEPT !.pc = "after"], Frame("any", "enter", f.lvl))
                   /\ UNCHANGED <<inp, eof, first, qsat, done, ok, ref, qt, nch>>
         [] f.pc = "after" ->
              IF AtEOF THEN Fail
              ELSE /\ Have
                   /\ IF Cur = COMMA THEN Consume /\ SetTop([f EXCEPT !.pc = "top"]) /\ UNCHANGED <<path, inp, eof, first, qsat, done, ok, ref, qt, nch>>
                      ELSE IF Cur = RBRACK THEN Consume /\ path' = SubSeq(path, 1, Len(path) - 1) /\ stk' = Rest /\ UNCHANGED <<inp, eof, first, qsat, done, ok, ref, qt, nch>>
                      ELSE Fail /\ UNCHANGED <<>>

StepObj ==
    LET f == Top IN
    /\ f.k = "obj"
    /\ CASE f.pc = "top" ->
              IF AtEOF THEN Fail
              ELSE /\ Have
                   /\ IF IsSpace(Cur) THEN Consume /\ UNCHANGED stk /\ UNCHANGED <<inp, eof, path, first, qsat, done, ok, ref, qt, nch>>
                      ELSE IF Cur = RBRACE THEN Consume /\ stk' = Rest /\ UNCHANGED <<inp, eof, path, first, qsat, done, ok, ref, qt, nch>>
                      ELSE IF Cur = QUOTE THEN Consume /\ Push2([f EXCEPT !.pc = "gotkey"], [Frame("str", "norm", f.lvl) EXCEPT !.got = TRUE]) /\ UNCHANGED <<inp, eof, path, first, qsat, done, ok, ref, qt, nch>>
                      ELSE Fail
         [] f.pc = "gotkey" ->    \* key string returned; its bytes were left in f.buf by the str frame
              /\ path' = Append(path, f.buf)
              /\ SetTop([f EXCEPT !.pc = "spc", !.buf = <<>>, !.qm = IF qsat THEN 0 ELSE QMatch(Append(path, f.buf))])
              /\ UNCHANGED <<inp, eof, ib, first, qsat, done, ok, ref, qt, nch>>
         [] f.pc = "spc" ->
              IF AtEOF THEN Fail
              ELSE /\ Have
                   /\ IF IsSpace(Cur) THEN Consume /\ UNCHANGED stk /\ UNCHANGED <<inp, eof, path, first, qsat, done, ok, ref, qt, nch>>
                      ELSE IF Cur = COLON THEN Consume /\ SetTop([f EXCEPT !.pc = "spv"]) /\ UNCHANGED <<inp, eof, path, first, qsat, done, ok, ref, qt, nch>>
                      ELSE Fail
         [] f.pc = "spv" ->
              IF AtEOF THEN Fail
              ELSE /\ Have
                   /\ IF IsSpace(Cur) THEN Consume /\ UNCHANGED stk
                      ELSE UNCHANGED ib /\ Push2([f EXCEPT !.pc = "gotval", !.vs = ib], Frame("any", "enter", f.lvl))
                   /\ UNCHANGED <<inp, eof, path, first, qsat, done, ok, ref, qt, nch>>
         [] f.pc = "gotval" ->
              /\ qsat' = (qsat \/ (f.qm # 0 /\ (QVals[f.qm] = {} \/ TrimR(SubSeq(inp, f.vs + 1, ib)) \in QVals[f.qm])))
              /\ SetTop([f EXCEPT !.pc = "sep"])
              /\ UNCHANGED <<inp, eof, ib, path, first, done, ok, ref, qt, nch>>
         [] f.pc = "sep" ->
              IF AtEOF THEN Fail
              ELSE /\ Have
                   /\ IF Cur = COMMA THEN Consume /\ path' = SubSeq(path, 1, Len(path) - 1) /\ SetTop([f EXCEPT !.pc = "top"]) /\ UNCHANGED <<inp, eof, first, qsat, done, ok, ref, qt, nch>>
                      ELSE IF Cur = RBRACE THEN Consume /\ path' = SubSeq(path, 1, Len(path) - 1) /\ stk' = Rest /\ UNCHANGED <<inp, eof, first, qsat, done, ok, ref, qt, nch>>
                      ELSE Fail

\* string frame: got=TRUE marks a key string whose raw bytes must be handed to the parent object frame
StrRet(f) == IF f.got THEN stk' = Append(SubSeq(stk, 1, Len(stk) - 2), [stk[Len(stk) - 1] EXCEPT !.buf = f.buf])
                      ELSE stk' = Rest
StepStr ==
    LET f == Top IN
    /\ f.k = "str"
    /\ CASE f.pc = "norm" ->
              IF AtEOF THEN Fail
              ELSE /\ Have /\ Consume
                   /\ IF Cur = BSLASH THEN SetTop([f EXCEPT !.pc = "esc", !.buf = IF f.got THEN Append(f.buf, Cur) ELSE f.buf])
                      ELSE IF Cur = QUOTE THEN StrRet(f)
                      ELSE SetTop([f EXCEPT !.buf = IF f.got THEN Append(f.buf, Cur) ELSE f.buf])
                   /\ UNCHANGED <<inp, eof, path, first, qsat, done, ok, ref, qt, nch>>
         [] f.pc = "esc" ->
              IF AtEOF THEN Fail
              ELSE /\ Have
                   /\ IF Cur \in EscChars THEN Consume /\ SetTop([f EXCEPT !.pc = "norm", !.buf = IF f.got THEN Append(f.buf, Cur) ELSE f.buf]) /\ UNCHANGED <<inp, eof, path, first, qsat, done, ok, ref, qt, nch>>
                      ELSE IF Cur = 117 THEN Consume /\ SetTop([f EXCEPT !.pc = "uni", !.j = 0, !.buf = IF f.got THEN Append(f.buf, Cur) ELSE f.buf]) /\ UNCHANGED <<inp, eof, path, first, qsat, done, ok, ref, qt, nch>>
                      ELSE Fail
         [] f.pc = "uni" ->
              IF AtEOF THEN Fail
              ELSE /\ Have
                   /\ IF IsXDigit(Cur) THEN Consume /\ SetTop([f EXCEPT !.pc = IF f.j = 3 THEN "norm" ELSE "uni", !.j = f.j + 1, !.buf = IF f.got THEN Append(f.buf, Cur) ELSE f.buf]) /\ UNCHANGED <<inp, eof, path, first, qsat, done, ok, ref, qt, nch>>
                      ELSE Fail

NumOut(f) == IF f.got THEN stk' = Rest /\ UNCHANGED <<inp, eof, ib, path, first, qsat, done, ok, ref, qt, nch>> ELSE Fail
StepNum ==
    LET f == Top IN
    /\ f.k = "num"
    /\ CASE f.pc = "start" ->
              /\ Have
              /\ IF Cur = MINUS THEN Consume ELSE UNCHANGED ib
              /\ SetTop([f EXCEPT !.pc = "int"]) /\ UNCHANGED <<inp, eof, path, first, qsat, done, ok, ref, qt, nch>>
         [] f.pc = "int" ->
              IF AtEOF THEN NumOut(f)
              ELSE /\ Have
                   /\ IF IsDigit(Cur) THEN Consume /\ SetTop([f EXCEPT !.got = TRUE])
                      ELSE IF Cur = DOT THEN Consume /\ SetTop([f EXCEPT !.pc = "frac"])
                      ELSE UNCHANGED ib /\ SetTop([f EXCEPT !.pc = "frac"])
                   /\ UNCHANGED <<inp, eof, path, first, qsat, done, ok, ref, qt, nch>>
         [] f.pc = "frac" ->
              IF AtEOF THEN NumOut(f)
              ELSE /\ Have
                   /\ IF IsDigit(Cur) THEN Consume /\ SetTop([f EXCEPT !.got = TRUE]) /\ UNCHANGED <<inp, eof, path, first, qsat, done, ok, ref, qt, nch>>
                      ELSE IF f.got /\ IsExpCh(Cur) THEN Consume /\ SetTop([f EXCEPT !.pc = "exp1", !.got = FALSE]) /\ UNCHANGED <<inp, eof, path, first, qsat, done, ok, ref, qt, nch>>
                      ELSE NumOut(f)
         [] f.pc = "exp1" ->
              IF AtEOF THEN NumOut(f)
              ELSE /\ Have
                   /\ IF Cur \in {PLUS, MINUS} THEN Consume ELSE UNCHANGED ib
                   /\ SetTop([f EXCEPT !.pc = "expd"]) /\ UNCHANGED <<inp, eof, path, first, qsat, done, ok, ref, qt, nch>>
         [] f.pc = "expd" ->
              IF Have /\ IsDigit(Cur) THEN Consume /\ SetTop([f EXCEPT !.got = TRUE]) /\ UNCHANGED <<inp, eof, path, first, qsat, done, ok, ref, qt, nch>>
              ELSE (Have \/ AtEOF) /\ NumOut(f)

StepConst ==
    LET f == Top IN
    /\ f.k = "const"
    /\ IF f.j = Len(f.w) THEN stk' = Rest /\ UNCHANGED <<inp, eof, ib, path, first, qsat, done, ok, ref, qt, nch>>
       ELSE IF AtEOF THEN Fail
       ELSE /\ Have
            /\ IF Cur = f.w[f.j + 1] THEN Consume /\ SetTop([f EXCEPT !.j = f.j + 1]) /\ UNCHANGED <<inp, eof, path, first, qsat, done, ok, ref, qt, nch>>
               ELSE Fail

Step == ~done /\ (Have \/ eof \/ Top.pc \in {"enter", "wait", "gotkey", "gotval"} \/ (Top.k = "const" /\ Top.j = Len(Top.w)))
        /\ (StepAny \/ StepArr \/ StepObj \/ StepStr \/ StepNum \/ StepConst)

Next == Reveal \/ End \/ Step
Spec == Init /\ [][Next]_vars


(* ---------------- jsonHelper (internal/magic/text.go:155-185) ---------------- *)
Terminal == done /\ eof
Parsed == IF ok THEN ib ELSE 0
LRaw == Len(inp)
LooksLike == \E i \in 1..Len(inp) : inp[i] \in {LBRACK, LBRACE} /\ \A j \in 1..(i - 1) : IsSpace(inp[j])
WantTok == IF qt = "json" THEN {TokArray, TokObject} ELSE {TokObject}
\* whole mode: limit = 0 or len(raw) < limit; truncated mode otherwise
WholeAccept == Terminal /\ LooksLike /\ qsat /\ first \in WantTok /\ Parsed = LRaw
TruncAccept == Terminal /\ LooksLike /\ qsat /\ first \in WantTok /\ ib = LRaw /\ LRaw > 0
SawOpen == \E i \in 1..Len(inp) : inp[i] \in {LBRACK, LBRACE}

(* ---------------- properties of the design ---------------- *)
DepthOK == Cap = 0 \/ ref.s.maxd <= Cap
\* C09 (soundness), stated for the plain-JSON query
C09Whole == (qt = "json" /\ WholeAccept) => RAccepting(ref.r)
C09Trunc == (qt = "json" /\ TruncAccept) => RLive(ref.r)
\* C08 (completeness), depth bounded by Cap
C08Whole == (qt = "json" /\ Terminal /\ RAccepting(ref.s) /\ DepthOK) => WholeAccept
C08Trunc == (qt = "json" /\ Terminal /\ RLive(ref.s) /\ SawOpen /\ DepthOK) => TruncAccept
\* C10: on valid documents the sub-type query is satisfied iff the statement's
\* top-level-member classification says so (up to members cut by the end of input)
QClass == CASE qt = "geo" -> "geo" [] qt = "har" -> "har" [] qt = "gltf" -> "gltf" [] OTHER -> "json"
RefSays(q) == CASE q = "geo" -> ref.t.geo [] q = "har" -> ref.t.har [] q = "gltf" -> ref.t.gltf [] OTHER -> TRUE
RefMay(q) == CASE q = "geo" -> ref.t.geo \/ GeoPend(ref.t, ref.s)
               [] q = "har" -> ref.t.har \/ HarPend(ref.t, ref.s)
               [] q = "gltf" -> ref.t.gltf \/ GltfPend(ref.t, ref.s)
               [] OTHER -> TRUE
IsObj == ref.s.st # <<>> => ref.s.st[1] = "O"
C10Pos == (Terminal /\ qt # "json" /\ RLive(ref.s) /\ SawOpen /\ DepthOK /\ RefSays(qt))
             => (IF RAccepting(ref.s) THEN WholeAccept ELSE TruncAccept)
C10Neg == (Terminal /\ qt # "json" /\ RLive(ref.s) /\ (WholeAccept \/ TruncAccept)) => RefMay(qt)
\* C16 (bounded recursion): the frame stack never exceeds a bound that depends on Cap only
C16Depth == Cap = 0 \/ Len(stk) <= 2 * Cap + 4
IbIsCursor == ib <= Len(inp)
PathBalanced == (Terminal /\ ok) => path = <<>>
\* the key-path stack never outgrows the frame stack (C16: memory bounded too)
PathBounded == Len(path) <= Len(stk)

(* ---------------- vector dump for conformance replay ---------------- *)
Vec == [i |-> inp, q |-> qt,
        o |-> <<ok, Parsed, ib, first, qsat>>,
        a |-> <<WholeAccept, TruncAccept>>,
        s |-> <<RLive(ref.s), RAccepting(ref.s), ref.s.maxd>>,
        r |-> <<RLive(ref.r), RAccepting(ref.r)>>,
        c |-> AllowedClasses(ref.t, ref.s),
        op |-> SawOpen, rs |-> RefSays(qt), rm |-> RefMay(qt)]
=============================================================================
