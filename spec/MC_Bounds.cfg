SPECIFICATION Spec
INVARIANTS AllInBounds Dump
CHECK_DEADLOCK FALSE
