----------------------------- MODULE LimitMono -----------------------------
(***************************************************************************)
(* C17: raising the read limit never loses a binary identification.        *)
(* Root children d_1 .. d_n are binary formats, followed by text (last).   *)
(* Every binary detector has one of the two shapes found in the code:      *)
(*   threshold : accepts iff the file matches it and L >= k     (monotone) *)
(*   handover  : accepts for k <= L < k2; from k2 on a LATER binary        *)
(*               sibling h accepts (ttf steps aside for mdb / accdb)       *)
(* text accepts iff the first L bytes hold no binary byte, i.e. L < tb     *)
(* where tb is the offset of the first binary byte (or never).             *)
(* L = 0 means unlimited and is the largest limit.                         *)
(* Claim: firstAcceptor(L) binary  =>  firstAcceptor(L') binary for L < L'.*)
(* TLC checks it for every assignment within the bound, and exhibits the   *)
(* counter-model as soon as a detector with an upper bound but without     *)
(* hand-over is admitted (SanityNeedsHandover must be violated).           *)
(***************************************************************************)
EXTENDS Integers, Sequences, FiniteSets, TLC
CONSTANTS N, MaxK, MaxL, AllowBroken
VARIABLES dets, tb, L1, L2
vars == <<dets, tb, L1, L2>>
Inf == MaxL + 1
Eff(L) == IF L = 0 THEN Inf ELSE L            \* effective header length for a long file
Shapes == [kind : {"threshold"}, m : BOOLEAN, k : 1..MaxK, k2 : {0}, h : {0}]
          \cup [kind : {"handover"}, m : BOOLEAN, k : 1..MaxK, k2 : 2..(MaxK + 1), h : 1..N]
          \cup (IF AllowBroken THEN [kind : {"broken"}, m : BOOLEAN, k : 1..MaxK, k2 : 2..(MaxK + 1), h : {0}] ELSE {})
Acc(d, L) == CASE d.kind = "threshold" -> d.m /\ Eff(L) >= d.k
               [] d.kind = "handover" -> d.m /\ Eff(L) >= d.k /\ Eff(L) < d.k2
               [] d.kind = "broken" -> d.m /\ Eff(L) >= d.k /\ Eff(L) < d.k2
\* a hand-over is well-formed when the detector it defers to is a later threshold detector that
\* matches the same file from k2 on
WellFormed(ds) == \A i \in 1..N : ds[i].kind = "handover" =>
                     /\ ds[i].h > i /\ ds[ds[i].h].kind = "threshold" /\ ds[i].k < ds[i].k2
                     /\ (ds[i].m => (ds[ds[i].h].m /\ ds[ds[i].h].k <= ds[i].k2))
Init == /\ dets \in {ds \in [1..N -> Shapes] : WellFormed(ds)}
        /\ tb \in 1..Inf /\ L1 \in 1..MaxL /\ L2 \in (1..MaxL) \cup {0}
Next == UNCHANGED vars
Spec == Init /\ [][Next]_vars
BinaryAt(L) == \E i \in 1..N : Acc(dets[i], L)
Less(a, b) == Eff(a) < Eff(b)
C17 == (Less(L1, L2) /\ BinaryAt(L1)) => BinaryAt(L2)
=============================================================================
