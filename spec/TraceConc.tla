----------------------------- MODULE TraceConc -----------------------------
(***************************************************************************)
(* Trace validation of free-running concurrent executions of the real      *)
(* package against Sys.tla (C06, C14, C03 on the skeleton).                *)
(*                                                                         *)
(* Events are appended to one global log by the hook, i.e. at the hook     *)
(* point itself.  Hooks that fire inside a critical section (rlocked, done,*)
(* locked, published) are therefore ordered consistently with the lock.    *)
(* The two lock-free accesses -- the atomic load in Detect and the atomic  *)
(* store in SetLimit -- happen somewhere between the call's "enter" event  *)
(* and its "loaded"/"stored" event: they are silent steps (DoLoad, DoStore)*)
(* that TLC places nondeterministically.  The read lock is released right  *)
(* after the "done" hook and the write lock right after the "published"    *)
(* hook, with no other shared access in between, so the model releases     *)
(* them at those events.                                                   *)
(* A trace is accepted iff some placement of the silent steps lets every   *)
(* event be consumed with all logged fields matching (high-water mark).    *)
(***************************************************************************)
EXTENDS Sys, Json, IOUtils

Log == ndJsonDeserialize(IOEnv.TRACE)
VARIABLE l
tvars == <<vars, l>>

E == Log[l]
IsEv(g, name) == l <= Len(Log) /\ E.ev = name /\ E.g = g
Adv == l' = l + 1 /\ TLCSet(42, IF TLCGet(42) > l + 1 THEN TLCGet(42) ELSE l + 1)
ToSet(s) == {s[i] : i \in 1..Len(s)}

TInit == Init /\ l = 1 /\ TLCSet(42, 1)

Keep == UNCHANGED <<gl, gt, done, hist, ops>>

\* ---- Detect
TDEnter(g) == /\ IsEv(g, "detect.enter") /\ pc[g] = "idle"
              /\ pc' = [pc EXCEPT ![g] = "d.enter"] /\ cur' = [cur EXCEPT ![g] = [x |-> E.x]]
              /\ Adv /\ UNCHANGED <<limit, children, parent, eacc, ealias, rw>> /\ Keep
DoLoad(g) == /\ pc[g] = "d.enter" /\ l <= Len(Log)
             /\ pc' = [pc EXCEPT ![g] = "d.loadedS"] /\ cur' = [cur EXCEPT ![g] = [x |-> cur[g].x, l |-> limit]]
             /\ UNCHANGED <<limit, children, parent, eacc, ealias, rw, l>> /\ Keep
TDLoaded(g) == /\ IsEv(g, "detect.loaded") /\ pc[g] = "d.loadedS" /\ cur[g].l = E.limit
               /\ pc' = [pc EXCEPT ![g] = "d.loaded"]
               /\ Adv /\ UNCHANGED <<limit, children, parent, eacc, ealias, rw, cur>> /\ Keep
TDRLocked(g) == /\ IsEv(g, "detect.rlocked") /\ pc[g] = "d.loaded" /\ ~rw.w
                /\ rw' = [rw EXCEPT !.r = @ + 1] /\ pc' = [pc EXCEPT ![g] = "d.rlocked"]
                /\ Adv /\ UNCHANGED <<limit, children, parent, eacc, ealias, cur>> /\ Keep
TDDone(g) == /\ IsEv(g, "detect.done") /\ pc[g] = "d.rlocked"
             /\ cur' = [cur EXCEPT ![g] = [x |-> cur[g].x, l |-> cur[g].l, path |-> FMP(children, eacc, "root", cur[g].x, cur[g].l)]]
             /\ rw' = [rw EXCEPT !.r = @ - 1] /\ pc' = [pc EXCEPT ![g] = "d.ret"]
             /\ Adv /\ UNCHANGED <<limit, children, parent, eacc, ealias>> /\ Keep
TDRet(g) == /\ IsEv(g, "detect.ret") /\ pc[g] = "d.ret" /\ E.path = cur[g].path
            /\ pc' = [pc EXCEPT ![g] = "idle"]
            /\ Adv /\ UNCHANGED <<limit, children, parent, eacc, ealias, rw, cur>> /\ Keep

\* ---- SetLimit
TSEnter(g) == /\ IsEv(g, "setlimit.enter") /\ pc[g] = "idle"
              /\ pc' = [pc EXCEPT ![g] = "s.enter"] /\ cur' = [cur EXCEPT ![g] = [v |-> E.limit]]
              /\ Adv /\ UNCHANGED <<limit, children, parent, eacc, ealias, rw>> /\ Keep
DoStore(g) == /\ pc[g] = "s.enter" /\ l <= Len(Log)
              /\ limit' = cur[g].v /\ pc' = [pc EXCEPT ![g] = "s.storedS"]
              /\ UNCHANGED <<children, parent, eacc, ealias, rw, cur, l>> /\ Keep
TSStored(g) == /\ IsEv(g, "setlimit.stored") /\ pc[g] = "s.storedS"
               /\ pc' = [pc EXCEPT ![g] = "idle"]
               /\ Adv /\ UNCHANGED <<limit, children, parent, eacc, ealias, rw, cur>> /\ Keep

\* ---- Extend
TEBuilt(g) == /\ IsEv(g, "ext.built") /\ pc[g] = "idle" /\ parent[E.e] = "none" /\ Attached(E.p)
              /\ cur' = [cur EXCEPT ![g] = [e |-> E.e, p |-> E.p, a |-> ToSet(E.acc), al |-> E.al]]
              /\ pc' = [pc EXCEPT ![g] = "e.built"]
              /\ Adv /\ UNCHANGED <<limit, children, parent, eacc, ealias, rw>> /\ Keep
TELocked(g) == /\ IsEv(g, "ext.locked") /\ pc[g] = "e.built" /\ ~rw.w /\ rw.r = 0
               /\ rw' = [rw EXCEPT !.w = TRUE] /\ pc' = [pc EXCEPT ![g] = "e.locked"]
               /\ Adv /\ UNCHANGED <<limit, children, parent, eacc, ealias, cur>> /\ Keep
TEPublished(g) == /\ IsEv(g, "ext.published") /\ pc[g] = "e.locked"
                  /\ children' = [children EXCEPT ![cur[g].p] = <<cur[g].e>> \o @]
                  /\ parent' = [parent EXCEPT ![cur[g].e] = cur[g].p]
                  /\ eacc' = [eacc EXCEPT ![cur[g].e] = cur[g].a] /\ ealias' = [ealias EXCEPT ![cur[g].e] = cur[g].al]
                  /\ rw' = [rw EXCEPT !.w = FALSE] /\ pc' = [pc EXCEPT ![g] = "idle"]
                  /\ Adv /\ UNCHANGED <<limit, cur>> /\ Keep

\* ---- Lookup
TLEnter(g) == /\ IsEv(g, "lookup.enter") /\ pc[g] = "idle"
              /\ pc' = [pc EXCEPT ![g] = "l.enter"] /\ cur' = [cur EXCEPT ![g] = [name |-> E.name]]
              /\ Adv /\ UNCHANGED <<limit, children, parent, eacc, ealias, rw>> /\ Keep
TLRLocked(g) == /\ IsEv(g, "lookup.rlocked") /\ pc[g] = "l.enter" /\ ~rw.w
                /\ rw' = [rw EXCEPT !.r = @ + 1] /\ pc' = [pc EXCEPT ![g] = "l.rlocked"]
                /\ Adv /\ UNCHANGED <<limit, children, parent, eacc, ealias, cur>> /\ Keep
TLDone(g) == /\ IsEv(g, "lookup.done") /\ pc[g] = "l.rlocked"
             /\ LET f == LookupRef(children, ealias, cur[g].name) IN
                  cur' = [cur EXCEPT ![g] = [name |-> cur[g].name, found |-> f, fp |-> IF f = "none" THEN "none" ELSE parent[f]]]
             /\ rw' = [rw EXCEPT !.r = @ - 1] /\ pc' = [pc EXCEPT ![g] = "l.ret"]
             /\ Adv /\ UNCHANGED <<limit, children, parent, eacc, ealias>> /\ Keep
TLRet(g) == /\ IsEv(g, "lookup.ret") /\ pc[g] = "l.ret" /\ E.found = cur[g].found /\ E.fp = cur[g].fp
            /\ E.backing_unchanged
            /\ pc' = [pc EXCEPT ![g] = "idle"]
            /\ Adv /\ UNCHANGED <<limit, children, parent, eacc, ealias, rw, cur>> /\ Keep

TNext == \E g \in Procs :
            \/ TDEnter(g) \/ DoLoad(g) \/ TDLoaded(g) \/ TDRLocked(g) \/ TDDone(g) \/ TDRet(g)
            \/ TSEnter(g) \/ DoStore(g) \/ TSStored(g)
            \/ TEBuilt(g) \/ TELocked(g) \/ TEPublished(g)
            \/ TLEnter(g) \/ TLRLocked(g) \/ TLDone(g) \/ TLRet(g)
TSpec == TInit /\ [][TNext]_tvars

\* evaluated in every state of every explored placement
TRWExcl == rw.w => rw.r = 0
TExtInFront == ExtensionsInFront
HighWater == TLCGet(42)
Accepted == IF HighWater = Len(Log) + 1 THEN TRUE ELSE (PrintT(<<"INFO", "rejected_at", HighWater>>) /\ FALSE)
=============================================================================
