SPECIFICATION Spec
CONSTANTS
  Palette <- Pal
  MaxCalls = 3
INVARIANTS NeverTainted PathBounded Dump
CHECK_DEADLOCK FALSE
