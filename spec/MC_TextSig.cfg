SPECIFICATION Spec
CONSTANTS
  MaxLen = 5
INVARIANTS DesignMarkup DesignShebang AllInBounds Dump
CHECK_DEADLOCK FALSE
