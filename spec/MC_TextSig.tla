----------------------------- MODULE MC_TextSig -----------------------------
EXTENDS TextSig, TLC, Json
CONSTANTS MaxLen
VARIABLE s
\* '<' 'a' 'A' 'b' ' ' '>' LF TAB '#' '!' '/' EF BB BF
Alphabet == {60, 97, 65, 98, 32, 62, 10, 9, 35, 33, 47, 239, 187, 191}
HtmlSigs == {<<60, 65>>, <<60, 66>>}            \* "<A" "<B": the only HTML signatures spellable here
PhpSig == <<60, 63>>                            \* not spellable ('?' is absent): ciPrefix is exercised through "<A"
Interp == <<47, 97>>                            \* a scaled interpreter path "/a"
Init == s = <<>>
Next == Len(s) < MaxLen /\ \E c \in Alphabet : s' = Append(s, c)
Spec == Init /\ [][Next]_s
DesignMarkup == Markup(HtmlSigs, s).ok = MarkupRef(HtmlSigs, s)
DesignShebang == ShebangCheck(Interp, s).ok = ShebangRef(Interp, s)
AllInBounds == Markup(HtmlSigs, s).inb /\ ShebangCheck(Interp, s).inb /\ CiCheck(<<60, 65>>, s).inb
Dump == PrintT(ToJson([i |-> s, html |-> Markup(HtmlSigs, s).ok]))
=============================================================================
