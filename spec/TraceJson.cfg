SPECIFICATION TraceSpec
CONSTANTS
  Chunks = {}
  MaxLen = 0
  MaxChunks = 0
  Cap = 4096
  QTypes = {}
POSTCONDITION TraceAccepted
CHECK_DEADLOCK FALSE
