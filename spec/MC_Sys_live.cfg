SPECIFICATION FairSpec
CONSTANTS
  Procs <- P2
  MaxOps = 1
  Exts <- E2
  AccMenu <- AccTwo
  AliasMenu <- AlNone
  LimitMenu <- Lim01
  LookupExtra <- NoExtra
  DupAt = 0
  Hist = FALSE
INVARIANTS RWExcl ReadersCounted WriterCounted PublishedComplete Linearizable LookupLinearizable
PROPERTIES TreeStableUnderRLock AllReturn
CHECK_DEADLOCK FALSE
