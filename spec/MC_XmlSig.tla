------------------------------ MODULE MC_XmlSig ------------------------------
EXTENDS XmlSig, TLC, Json
CONSTANTS MaxLen, Family   \* "xml" | "vtt" | "srt"
VARIABLE s
Alphabet == CASE Family = "xml" -> {"L", "N", "x", "ws", "pad"}
              [] Family = "vtt" -> {"bom", "W", "lf", "cr", "sp", "tab", "x"}
              [] Family = "srt" -> {"one", "two", "lf", "cr", "txt", "ts", "tsrev", "tsdot", "tsshort", "tsbad"}
Init == s = <<>>
Next == Len(s) < MaxLen /\ \E c \in Alphabet : s' = Append(s, c)
Spec == Init /\ [][Next]_s
DesignXml == Family = "xml" => /\ \A k \in {"both", "L", "N"} : XmlCheck(k, s) = (XTrim(s) # <<>> /\ XmlRef(k, s))
                               /\ XmlInBounds(s)
Dump == CASE Family = "xml" -> PrintT(ToJson([fam |-> "xml", t |-> s, both |-> XmlCheck("both", s), l |-> XmlCheck("L", s), n |-> XmlCheck("N", s)]))
          [] Family = "vtt" -> PrintT(ToJson([fam |-> "vtt", t |-> s, ok |-> VttAccept(s)]))
          [] Family = "srt" -> PrintT(ToJson([fam |-> "srt", t |-> s, ok |-> SrtAccept(s)]))
=============================================================================
