------------------------------ MODULE TarLemma ------------------------------
(* Unbounded form of Tar!CorruptionLemma, discharged by the TLA+ proof system. *)
EXTENDS Integers
THEOREM Corruption ==
    \A v \in 0..255 : \A w \in 0..255 : \A k \in Nat :
        v # w => ((w - v) # 0 /\ (w - v) # 256 * k)
OBVIOUS
=============================================================================
