SPECIFICATION Spec
CONSTANTS
  Names <- NamesBig
  Sizes = {5, 70000}
  Extras = {0}
  MaxEntries = 3
  Focus = FALSE
INVARIANTS DesignC19 DesignC01 Dump
CHECK_DEADLOCK FALSE
