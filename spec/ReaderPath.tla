----------------------------- MODULE ReaderPath -----------------------------
(***************************************************************************)
(* C05: the reader entry point (mimetype.go:45-86) against an arbitrary    *)
(* conforming io.Reader.                                                   *)
(*                                                                         *)
(*   limit > 0 :  buf = make([]byte, limit); io.ReadFull(r, buf)           *)
(*                  = io.ReadAtLeast(r, buf, len(buf)):                    *)
(*                    for n < min && err == nil { nn, err = r.Read(buf[n:]) }*)
(*                    n >= min -> err = nil ; 0 < n < min && EOF -> ErrUnexpectedEOF *)
(*                EOF and ErrUnexpectedEOF are not errors; header = buf[:n]*)
(*   limit = 0 :  io.ReadAll(r): read until an error; EOF is not an error  *)
(*   any other error -> (application/octet-stream, err)                    *)
(*                                                                         *)
(* Environment: a reader over `data` (abstract bytes 1..Len) that may      *)
(* return any k <= room bytes per call (short reads), (0, nil) at most     *)
(* once in a row, EOF together with the last bytes or separately, and a    *)
(* Fault (a sentinel error) when its position reaches faultAt -- together  *)
(* with data or alone.                                                     *)
(***************************************************************************)
EXTENDS Integers, Sequences, TLC

CONSTANTS MaxData,     \* data lengths 0..MaxData
          MaxLimit,    \* limits 0..MaxLimit
          Chunk        \* room offered by ReadAll per call (abstract; the real one is 512)

VARIABLES dlen, limit, faultAt, off, n, err, phase, zeroes, hist
vars == <<dlen, limit, faultAt, off, n, err, phase, zeroes, hist>>

NoFault == 99
Init == /\ dlen \in 0..MaxData /\ limit \in 0..MaxLimit
        /\ faultAt \in (0..dlen) \cup {NoFault}
        /\ off = 0 /\ n = 0 /\ err = "nil" /\ phase = "reading" /\ zeroes = 0 /\ hist = <<>>

\* room the caller offers in the next Read
Room == IF limit = 0 THEN Chunk ELSE limit - n
\* bytes the reader can still deliver before its end or its fault position
Avail == (IF faultAt = NoFault THEN dlen ELSE faultAt) - off
LoopCond == IF limit = 0 THEN err = "nil" ELSE (n < limit /\ err = "nil")

\* one call of r.Read(buf[n:]) with a conforming reply (k, e)
Read(k, e) ==
    /\ phase = "reading" /\ LoopCond /\ Room > 0
    /\ k >= 0 /\ k <= Room /\ k <= Avail
    /\ e \in {"nil", "EOF", "Fault"}
    /\ (e = "EOF" => (faultAt = NoFault /\ off + k = dlen))          \* EOF only at the end of the data
    /\ (e = "Fault" => (faultAt # NoFault /\ off + k = faultAt))      \* the injected error at its offset
    /\ (e = "nil" => (k > 0 \/ zeroes = 0))                           \* (0, nil) at most once in a row
    /\ (e = "nil" /\ k = 0 => Avail >= 0)
    /\ off' = off + k /\ n' = n + k /\ err' = e
    /\ zeroes' = IF k = 0 /\ e = "nil" THEN 1 ELSE 0
    /\ hist' = Append(hist, <<Room, k, e>>)
    /\ UNCHANGED <<dlen, limit, faultAt, phase>>

\* the loop ends; post-processing of io.ReadAtLeast / io.ReadAll and of DetectReader
Finish ==
    /\ phase = "reading" /\ (~LoopCond \/ Room = 0)
    /\ phase' = "done"
    /\ err' = IF limit = 0 THEN (IF err = "EOF" THEN "nil" ELSE err)
              ELSE IF n >= limit THEN "nil"                            \* ReadAtLeast drops the error when min is reached
              ELSE IF err = "EOF" THEN "nil"                           \* EOF / ErrUnexpectedEOF are tolerated
              ELSE err
    /\ UNCHANGED <<dlen, limit, faultAt, off, n, zeroes, hist>>

Next == (\E k \in 0..(MaxData + 1), e \in {"nil", "EOF", "Fault"} : Read(k, e)) \/ Finish
Spec == Init /\ [][Next]_vars
FairSpec == Spec /\ WF_vars(Next)

Done == phase = "done"
Failed == Done /\ err = "Fault"
HeaderLen == n
Min(a, b) == IF a < b THEN a ELSE b
Wanted == IF limit = 0 THEN dlen ELSE Min(limit, dlen)

(* ---------------- C05 ---------------- *)
\* never more than `limit` bytes are taken from the reader
ReadsStopAtLimit == limit > 0 => off <= limit
BufferNeverOverrun == limit > 0 => n <= limit
\* no failure before the header is complete  =>  no error, and the header is the first Wanted bytes
NoFaultMeansPrefix == (Done /\ (faultAt = NoFault \/ (limit > 0 /\ faultAt >= limit))) => (err = "nil" /\ HeaderLen = Wanted)
\* a failure before the header is complete  =>  the error is surfaced (and the type is the error value)
FaultSurfaces == (Done /\ faultAt # NoFault /\ (limit = 0 \/ faultAt < limit)) => err = "Fault"
\* conversely an error is only ever the injected one
OnlyInjected == (Done /\ err # "nil") => (err = "Fault" /\ faultAt # NoFault)
Terminates == <>Done

Vec == [d |-> dlen, l |-> limit, f |-> faultAt, h |-> hist, n |-> n, e |-> err, off |-> off]
=============================================================================
