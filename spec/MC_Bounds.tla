----------------------------- MODULE MC_Bounds -----------------------------
EXTENDS Bounds, Json
VARIABLE t
Near(x) == {y \in (x - 3)..(x + 3) : y >= 0}
Big == {0, 1, (U32 \div 2) - 1, U32 \div 2, U32 - 50, U32 - 49, U32 - 48, U32 - 17, U32 - 16, U32 - 1}
CrxLens == 0..40
CrxT == {[w |-> "crx", len |-> len, a |-> pk, b |-> sl, f |-> z] : len \in CrxLens, pk \in Big \cup (0..3) \cup Near(20), sl \in Big \cup (0..4) \cup Near(8), z \in BOOLEAN}
OleLens == Near(512) \cup Near(608) \cup Near(1120) \cup Near(1136) \cup Near(4192) \cup Near(8288)
OleT == {[w |-> "ole", len |-> len, a |-> sid, b |-> IF v4 THEN 1 ELSE 0, f |-> c] : len \in OleLens, sid \in Big \cup (0..2) \cup {7, 15}, v4 \in BOOLEAN, c \in BOOLEAN}
MkvT == {[w |-> "mkv", len |-> len, a |-> p, b |-> w, f |-> nm] : len \in 4..24, p \in 0..22, w \in 1..8, nm \in BOOLEAN}
          \cup {[w |-> "mkv", len |-> len, a |-> p, b |-> w, f |-> FALSE] : len \in Near(4096) \cup Near(4100), p \in Near(4090), w \in {1, 8}}
ZipLens == 0..90
ZipT == {[w |-> "zip", len |-> len, a |-> cs, b |-> 0, f |-> FALSE] : len \in ZipLens, cs \in Big \cup (0..45) \cup {U32 - 51, U32 - 52}}
Init == t \in CrxT \cup OleT \cup MkvT \cup ZipT
Next == UNCHANGED t
Spec == Init /\ [][Next]_t
Res == CASE t.w = "crx" -> Crx(t.len, t.a, t.b, t.f)
         [] t.w = "ole" -> Ole(t.len, t.b = 1, t.a, t.f)
         [] t.w = "mkv" -> Mkv(t.len, t.a, t.b, t.f)
         [] t.w = "zip" -> ZipHostile(t.len, t.a)
\* the design never reads outside the buffer
AllInBounds == Res.inb
Dump == PrintT(ToJson([t |-> t, ok |-> Res.ok]))
=============================================================================
