SPECIFICATION Spec
CONSTANTS
  MaxData = 4
  MaxLimit = 5
  Chunk = 2
INVARIANTS ReadsStopAtLimit BufferNeverOverrun NoFaultMeansPrefix FaultSurfaces OnlyInjected Dump
CHECK_DEADLOCK FALSE
