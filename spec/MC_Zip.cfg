SPECIFICATION Spec
CONSTANTS
  Names <- NamesQuick
  Sizes = {0, 5, 40}
  Extras = {0}
  MaxEntries = 3
INVARIANTS DesignC19 DesignC01 Dump
CHECK_DEADLOCK FALSE
