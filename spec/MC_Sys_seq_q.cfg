SPECIFICATION Spec
CONSTANTS
  Procs <- P1
  MaxOps = 3
  Exts <- E3
  AccMenu <- AccSome
  AliasMenu <- AlTwo
  LimitMenu <- Lim01
  LookupExtra <- Missing
  DupAt = 99
  Hist = TRUE
INVARIANTS DumpHist RWExcl Linearizable LookupLinearizable ExtensionsInFront ExtensionWins NonInterference LookupFindsExtensions PathSound
CHECK_DEADLOCK FALSE
