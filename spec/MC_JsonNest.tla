---------------------------- MODULE MC_JsonNest ----------------------------
(* C16: nesting shapes against a small recursion cap.  The frame stack, the key-path   *)
(* stack and the recursion level are bounded by a function of Cap only, whatever the   *)
(* input length.                                                                        *)
EXTENDS JsonScan

NestChunks == { <<LBRACK>>, <<RBRACK>>, <<RBRACE>>, <<49>>, <<32>>,
                <<LBRACE, QUOTE, 107, QUOTE, COLON>> }    \* {"k":
OnlyJson == {"json"}
\* the level handed to consumeAny never exceeds Cap + 1 (this is what the hook reports)
LvlBound == \A i \in 1..Len(stk) : stk[i].lvl <= Cap + 1
\* once nesting exceeds the cap the document is never accepted
RejectedBeyondCap == (Terminal /\ ref.s.maxd >= Cap + 2) => (~WholeAccept /\ ~TruncAccept)
\* the key-path stack is bounded by the cap as well (memory does not grow with the input)
PathCap == Len(path) <= Cap + 1
=============================================================================
