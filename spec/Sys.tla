-------------------------------- MODULE Sys --------------------------------
(***************************************************************************)
(* The public API of mimetype as a concurrent system (mimetype.go,         *)
(* mime.go:94-186, tree.go:18-37):                                         *)
(*    readLimit  atomic word           written by SetLimit                 *)
(*    tree       children / parent     written by Extend under mu.Lock     *)
(*    mu         RW lock               readers: Detect*, Lookup            *)
(* Each API call is cut at the hook points of the verif build (which the   *)
(* conformance harness uses as scheduler gates), one action per segment:   *)
(*    Detect   : DLoad -> DRLock -> DWalk -> DRUnlock                      *)
(*    SetLimit : SStore                                                    *)
(*    Extend   : ELock -> EPub -> EUnlock                                  *)
(*    Lookup   : LRLock -> LSearch -> LRUnlock                             *)
(* The tree is an abstract skeleton of the real one:                       *)
(*    root > {bin (zip) > {binc (jar)}, txt (text/plain, last) > {tj (json)}} *)
(* plus the extensions registered by the behaviour itself.  Inputs:        *)
(*    x1 = a jar file (zip+jar when seen whole, text when only 1 byte),    *)
(*    x2 = a JSON array (text > json), x3 = binary bytes nothing matches.  *)
(***************************************************************************)
EXTENDS Naturals, Sequences, FiniteSets, TLC

CONSTANTS Procs,        \* goroutines
          MaxOps,       \* API calls per goroutine
          Exts,         \* extension ids, registered in this order: a sequence, e.g. <<"e1","e2">>
          AccMenu,      \* verdict sets an extension detector may have (subsets of Inputs)
          AliasMenu,    \* alias lists an extension may be registered with
          LimitMenu,    \* values SetLimit may store
          LookupExtra,  \* extra names looked up (e.g. a missing one)
          Hist,         \* TRUE: record the behaviour in hist (for replay)
          DupAt         \* 0: every extension has its own type string; 99: the LAST extension is registered under the
                        \* same string as the first one; k >= 2: the k-th is (later ones can then be attached to either)

Inputs == {"x1", "x2", "x3"}
Builtin == {"root", "bin", "binc", "txt", "tj"}
ExtSet == {Exts[i] : i \in 1..Len(Exts)}
Nodes == Builtin \cup ExtSet
DefaultLimit == 3072

\* built-in verdicts: a function of (input, limit) only (C04)
BAcc(n, x, l) == CASE n = "root" -> TRUE
                   [] n = "bin"  -> x = "x1" /\ l # 1
                   [] n = "binc" -> x = "x1" /\ l # 1
                   [] n = "txt"  -> (x = "x1" /\ l = 1) \/ x = "x2"
                   [] n = "tj"   -> x = "x2"
                   [] OTHER -> FALSE

VARIABLES limit, children, parent, eacc, ealias, rw, pc, cur, ops, gl, gt, done, hist
vars == <<limit, children, parent, eacc, ealias, rw, pc, cur, ops, gl, gt, done, hist>>

InitChildren == [n \in Nodes |-> CASE n = "root" -> <<"bin", "txt">>
                                   [] n = "bin" -> <<"binc">>
                                   [] n = "txt" -> <<"tj">>
                                   [] OTHER -> <<>>]
InitParent == [n \in Nodes |-> CASE n \in {"bin", "txt"} -> "root" [] n = "binc" -> "bin" [] n = "tj" -> "txt" [] OTHER -> "none"]

Attached(n) == n \in Builtin \/ parent[n] # "none"
Acc(n, x, l) == IF n \in ExtSet THEN x \in eacc[n] ELSE BAcc(n, x, l)
\* the registered type string of a node: its id, except that (DupAt) one later extension re-uses the first one's
DupIdx == IF DupAt = 99 THEN Len(Exts) ELSE DupAt
Name(n) == IF DupIdx > 1 /\ Len(Exts) >= DupIdx /\ n = Exts[DupIdx] THEN Exts[1] ELSE n
NamesOf(n) == <<Name(n)>> \o (IF n \in ExtSet THEN ealias[n] ELSE <<>>)

(* ------------- reference: first-match deepest path (from the statement of C03) ------------- *)
RECURSIVE FMP(_, _, _, _, _)
FMP(ch, ea, n, x, l) ==
   LET A(k) == IF k \in ExtSet THEN x \in ea[k] ELSE BAcc(k, x, l)
       okc == {i \in 1..Len(ch[n]) : A(ch[n][i])} IN
   IF okc = {} THEN <<n>>
   ELSE <<n>> \o FMP(ch, ea, ch[n][CHOOSE i \in okc : \A j \in okc : i <= j], x, l)

(* ------------- reference: depth-first pre-order (Lookup order) ------------- *)
RECURSIVE DFS(_, _)
RECURSIVE DFSSeq(_, _)
DFSSeq(ch, s) == IF s = <<>> THEN <<>> ELSE DFS(ch, Head(s)) \o DFSSeq(ch, Tail(s))
DFS(ch, n) == <<n>> \o DFSSeq(ch, ch[n])
InSeq(v, s) == \E i \in 1..Len(s) : s[i] = v
LookupRef(ch, al, name) ==
   LET order == DFS(ch, "root")
       hit == {i \in 1..Len(order) : name = Name(order[i]) \/ (order[i] \in ExtSet /\ InSeq(name, al[order[i]]))} IN
   IF hit = {} THEN "none" ELSE order[CHOOSE i \in hit : \A j \in hit : i <= j]

(* ------------------------------- behaviours ------------------------------- *)
Init == /\ limit = DefaultLimit /\ children = InitChildren /\ parent = InitParent
        /\ eacc = [e \in ExtSet |-> {}] /\ ealias = [e \in ExtSet |-> <<>>]
        /\ rw = [r |-> 0, w |-> FALSE]
        /\ pc = [g \in Procs |-> "idle"] /\ cur = [g \in Procs |-> [x |-> "x1"]]
        /\ ops = [g \in Procs |-> 0]
        /\ gl = [g \in Procs |-> {}] /\ gt = [g \in Procs |-> {}]
        /\ done = [g \in Procs |-> <<>>] /\ hist = <<>>

Idle(g) == pc[g] = "idle" /\ ops[g] < MaxOps
H(rec) == hist' = IF Hist THEN Append(hist, rec) ELSE hist
\* ghost sets: every limit value / tree in force while a call is in flight
Ghost(S) == /\ gl' = [g \in Procs |-> IF g \in S THEN {limit'} ELSE IF pc[g] # "idle" THEN gl[g] \cup {limit'} ELSE gl[g]]
            /\ gt' = [g \in Procs |-> IF g \in S THEN {children'} ELSE IF pc[g] # "idle" THEN gt[g] \cup {children'} ELSE gt[g]]

\* ---- SetLimit: one atomic store (mimetype.go:117-122)
SStore(g, v) == /\ Idle(g) /\ limit' = v /\ ops' = [ops EXCEPT ![g] = @ + 1]
                /\ H([g |-> g, a |-> "SStore", v |-> v])
                /\ UNCHANGED <<children, parent, eacc, ealias, rw, pc, cur, done>> /\ Ghost({})

\* ---- Detect (mimetype.go:24-37)
DLoad(g, x) == /\ Idle(g) /\ cur' = [cur EXCEPT ![g] = [x |-> x, l |-> limit]]
               /\ pc' = [pc EXCEPT ![g] = "d.loaded"] /\ H([g |-> g, a |-> "DLoad", x |-> x, l |-> limit])
               /\ UNCHANGED <<limit, children, parent, eacc, ealias, rw, ops, done>> /\ Ghost({g})
DRLock(g) == /\ pc[g] = "d.loaded" /\ ~rw.w /\ rw' = [rw EXCEPT !.r = @ + 1]
             /\ pc' = [pc EXCEPT ![g] = "d.rlocked"] /\ H([g |-> g, a |-> "DRLock"])
             /\ UNCHANGED <<limit, children, parent, eacc, ealias, cur, ops, done>> /\ Ghost({})
\* the walk happens entirely under the read lock; Walk.tla refines it into consult steps
DWalk(g) == /\ pc[g] = "d.rlocked"
            /\ LET p == FMP(children, eacc, "root", cur[g].x, cur[g].l) IN
                 /\ cur' = [cur EXCEPT ![g] = [x |-> cur[g].x, l |-> cur[g].l, path |-> p]]
                 /\ H([g |-> g, a |-> "DWalk", path |-> p])
            /\ pc' = [pc EXCEPT ![g] = "d.done"]
            /\ UNCHANGED <<limit, children, parent, eacc, ealias, rw, ops, done>> /\ Ghost({})
DRUnlock(g) == /\ pc[g] = "d.done" /\ rw' = [rw EXCEPT !.r = @ - 1]
               /\ done' = [done EXCEPT ![g] = Append(@, [k |-> "detect", x |-> cur[g].x, path |-> cur[g].path, gl |-> gl[g], gt |-> gt[g], ea |-> eacc])]
               /\ pc' = [pc EXCEPT ![g] = "idle"] /\ ops' = [ops EXCEPT ![g] = @ + 1]
               /\ H([g |-> g, a |-> "DRUnlock", path |-> cur[g].path])
               /\ UNCHANGED <<limit, children, parent, eacc, ealias, cur>> /\ Ghost({})

\* ---- Extend (mime.go:174-192): node built outside the lock, published under mu.Lock
NextExt == LET un == {i \in 1..Len(Exts) : parent[Exts[i]] = "none" /\ \A h \in Procs : ~(pc[h] \in {"e.built", "e.locked", "e.pub"} /\ cur[h].e = Exts[i])} IN
           IF un = {} THEN "none" ELSE Exts[CHOOSE i \in un : \A j \in un : i <= j]
\* the node is built without any lock (nothing shared is read or written) ...
EBuild(g, p, a, al) == /\ Idle(g) /\ NextExt # "none" /\ Attached(p)
                       /\ cur' = [cur EXCEPT ![g] = [e |-> NextExt, p |-> p, a |-> a, al |-> al]]
                       /\ pc' = [pc EXCEPT ![g] = "e.built"]
                       /\ H([g |-> g, a |-> "EBuild", e |-> NextExt, nm |-> Name(NextExt), p |-> p, acc |-> a, al |-> al])
                       /\ UNCHANGED <<limit, children, parent, eacc, ealias, rw, ops, done>> /\ Ghost({g})
\* ... then the write lock is taken; the children are read and replaced under it
ELock(g) == /\ pc[g] = "e.built"
            /\ ~rw.w /\ rw.r = 0 /\ rw' = [rw EXCEPT !.w = TRUE]
            /\ pc' = [pc EXCEPT ![g] = "e.locked"]
            /\ H([g |-> g, a |-> "ELock"])
            /\ UNCHANGED <<limit, children, parent, eacc, ealias, cur, ops, done>> /\ Ghost({})
EPub(g) == /\ pc[g] = "e.locked"
           /\ children' = [children EXCEPT ![cur[g].p] = <<cur[g].e>> \o @]
           /\ parent' = [parent EXCEPT ![cur[g].e] = cur[g].p]
           /\ eacc' = [eacc EXCEPT ![cur[g].e] = cur[g].a] /\ ealias' = [ealias EXCEPT ![cur[g].e] = cur[g].al]
           /\ pc' = [pc EXCEPT ![g] = "e.pub"] /\ H([g |-> g, a |-> "EPub"])
           /\ UNCHANGED <<limit, rw, cur, ops, done>> /\ Ghost({})
EUnlock(g) == /\ pc[g] = "e.pub" /\ rw' = [rw EXCEPT !.w = FALSE]
              /\ pc' = [pc EXCEPT ![g] = "idle"] /\ ops' = [ops EXCEPT ![g] = @ + 1]
              /\ H([g |-> g, a |-> "EUnlock"])
              /\ UNCHANGED <<limit, children, parent, eacc, ealias, cur, done>> /\ Ghost({})

\* ---- Lookup (mimetype.go:132-140, mime.go:156-170)
LRLock(g, name) == /\ Idle(g) /\ ~rw.w /\ rw' = [rw EXCEPT !.r = @ + 1]
                   /\ cur' = [cur EXCEPT ![g] = [name |-> name]]
                   /\ pc' = [pc EXCEPT ![g] = "l.rlocked"] /\ H([g |-> g, a |-> "LRLock", name |-> name])
                   /\ UNCHANGED <<limit, children, parent, eacc, ealias, ops, done>> /\ Ghost({g})
LSearch(g) == /\ pc[g] = "l.rlocked"
              /\ LET f == LookupRef(children, ealias, cur[g].name) IN
                   /\ cur' = [cur EXCEPT ![g] = [name |-> cur[g].name, found |-> f, fp |-> IF f = "none" THEN "none" ELSE parent[f]]]
                   /\ H([g |-> g, a |-> "LSearch", found |-> f, fp |-> IF f = "none" THEN "none" ELSE parent[f]])
              /\ pc' = [pc EXCEPT ![g] = "l.done"]
              /\ UNCHANGED <<limit, children, parent, eacc, ealias, rw, ops, done>> /\ Ghost({})
LRUnlock(g) == /\ pc[g] = "l.done" /\ rw' = [rw EXCEPT !.r = @ - 1]
               /\ done' = [done EXCEPT ![g] = Append(@, [k |-> "lookup", name |-> cur[g].name, found |-> cur[g].found, gt |-> gt[g], al |-> ealias])]
               /\ pc' = [pc EXCEPT ![g] = "idle"] /\ ops' = [ops EXCEPT ![g] = @ + 1]
               /\ H([g |-> g, a |-> "LRUnlock"])
               /\ UNCHANGED <<limit, children, parent, eacc, ealias, cur>> /\ Ghost({})

LookupNames == Builtin \cup {Name(e) : e \in ExtSet} \cup UNION {{al[i] : i \in 1..Len(al)} : al \in AliasMenu} \cup LookupExtra

Next == \E g \in Procs :
          \/ \E v \in LimitMenu : SStore(g, v)
          \/ \E x \in Inputs : DLoad(g, x)
          \/ DRLock(g) \/ DWalk(g) \/ DRUnlock(g)
          \/ \E p \in Nodes, a \in AccMenu, al \in AliasMenu : EBuild(g, p, a, al)
          \/ ELock(g) \/ EPub(g) \/ EUnlock(g)
          \/ \E nm \in LookupNames : LRLock(g, nm)
          \/ LSearch(g) \/ LRUnlock(g)
Spec == Init /\ [][Next]_vars
FairSpec == Spec /\ \A g \in Procs : WF_vars(DRLock(g) \/ DWalk(g) \/ DRUnlock(g) \/ ELock(g) \/ EPub(g) \/ EUnlock(g) \/ LSearch(g) \/ LRUnlock(g))

(* ------------------------------- properties ------------------------------- *)
\* C06: lock discipline
RWExcl == rw.w => rw.r = 0
ReadersCounted == rw.r = Cardinality({g \in Procs : pc[g] \in {"d.rlocked", "d.done", "l.rlocked", "l.done"}})
WriterCounted == rw.w = (\E g \in Procs : pc[g] \in {"e.locked", "e.pub"})
\* C06: the tree does not change while any reader holds the lock (action property)
TreeStableUnderRLock == [][rw.r > 0 => UNCHANGED <<children, parent, eacc, ealias>>]_vars
\* C06: a published node is complete: parent, verdicts and aliases are set in the same step
PublishedComplete == \A e \in ExtSet : (\E n \in Nodes : InSeq(e, children[n])) => (parent[e] # "none" /\ InSeq(e, children[parent[e]]))
\* C06: every detection equals a sequential one for a limit and a tree each in force at some instant of the call
Linearizable == \A g \in Procs : \A i \in 1..Len(done[g]) :
                   LET d == done[g][i] IN
                   d.k = "detect" => \E l \in d.gl, t \in d.gt : d.path = FMP(t, d.ea, "root", d.x, l)
LookupLinearizable == \A g \in Procs : \A i \in 1..Len(done[g]) :
                   LET d == done[g][i] IN
                   d.k = "lookup" => \E t \in d.gt : d.found = LookupRef(t, d.al, d.name)
\* every call terminates (checked under FairSpec)
AllReturn == \A g \in Procs : <>[](pc[g] = "idle")

\* C14 (i): each extension sits immediately in front of the siblings that existed when it was registered
RECURSIVE StripExts(_)
StripExts(s) == IF s = <<>> THEN <<>> ELSE IF Head(s) \in ExtSet THEN StripExts(Tail(s)) ELSE <<Head(s)>> \o StripExts(Tail(s))
RegIndex(e) == CHOOSE i \in 1..Len(Exts) : Exts[i] = e
ExtensionsInFront == \A n \in Nodes :
      /\ \A i \in 1..Len(children[n]) : \A j \in 1..Len(children[n]) :
            (i < j /\ children[n][i] \in ExtSet /\ children[n][j] \in ExtSet) => RegIndex(children[n][i]) > RegIndex(children[n][j])
      /\ \A i \in 1..Len(children[n]) : \A j \in 1..Len(children[n]) :
            (children[n][i] \in ExtSet /\ children[n][j] \notin ExtSet) => i < j
      /\ StripExts(children[n]) = InitChildren[n]
\* C14 (ii): an input that reaches p and satisfies the newest matching extension is classified under it
ExtensionWins == \A e \in ExtSet : \A x \in Inputs : \A l \in {0, 1} :
      (Attached(e) /\ x \in eacc[e]) =>
         LET pth == FMP(children, eacc, "root", x, l)
             ppos == {i \in 1..Len(pth) : pth[i] = parent[e]} IN
         ppos # {} => LET i == CHOOSE k \in ppos : TRUE IN
                      /\ i < Len(pth) /\ pth[i + 1] \in ExtSet
                      /\ RegIndex(pth[i + 1]) >= RegIndex(e)
\* C14 (iii): inputs that every extension rejects are classified exactly as before
NonInterference == \A x \in Inputs : \A l \in {0, 1, DefaultLimit} :
      (\A e \in ExtSet : Attached(e) => x \notin eacc[e]) =>
          FMP(children, eacc, "root", x, l) = FMP(InitChildren, eacc, "root", x, l)
\* C14 (iv): extension names and aliases resolve to a node with the right parent
LookupFindsExtensions == \A e \in ExtSet : Attached(e) =>
      /\ LET f0 == LookupRef(children, ealias, Name(e)) IN f0 \in ExtSet /\ Name(f0) = Name(e)
      /\ \A i \in 1..Len(ealias[e]) : LET f == LookupRef(children, ealias, ealias[e][i]) IN
             f \in ExtSet /\ InSeq(ealias[e][i], ealias[f])
\* C03: every node on a reported path accepts, and no child of the last one does
PathSound == \A g \in Procs : pc[g] = "d.done" =>
      LET p == cur[g].path IN
      /\ p[1] = "root"
      /\ \A i \in 2..Len(p) : Acc(p[i], cur[g].x, cur[g].l) /\ parent[p[i]] = p[i - 1]
      /\ \A i \in 1..Len(children[p[Len(p)]]) : ~Acc(children[p[Len(p)]][i], cur[g].x, cur[g].l)
      /\ \A i \in 2..Len(p) : \A j \in 1..Len(children[p[i - 1]]) :
            (\E k \in 1..Len(children[p[i - 1]]) : k > j /\ children[p[i - 1]][k] = p[i]) => ~Acc(children[p[i - 1]][j], cur[g].x, cur[g].l)

AllDone == \A g \in Procs : pc[g] = "idle" /\ ops[g] = MaxOps
View == <<limit, children, parent, eacc, ealias, rw, pc, cur, ops, gl, gt,
          [g \in Procs |-> IF done[g] = <<>> THEN <<>> ELSE <<done[g][Len(done[g])]>>]>>
=============================================================================
