SPECIFICATION TSpec
CONSTANTS
  MaxData = 0
  MaxLimit = 0
  Chunk = 512
POSTCONDITION Accepted
CHECK_DEADLOCK FALSE
