SPECIFICATION Spec
CONSTANTS
  Mode = "csv"
  MaxRows = 3
  SpecialKinds = {"e", "qd"}
  InsKinds = {"blank", "comment"}
INVARIANTS DesignCsv Dump
CHECK_DEADLOCK FALSE
