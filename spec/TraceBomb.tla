----------------------------- MODULE TraceBomb -----------------------------
(***************************************************************************)
(* C16 trace validation.  Nesting bombs are far too large to log byte by   *)
(* byte, so each record describes the input in run-length form:            *)
(*   {"ev":"bomb","shape":s,"n":N,"closed":b,"limit":L,"entry":e,         *)
(*    "returned":b,"maxlvl":M,"cls":c,"parses":k}                          *)
(* shape unit (repeated N times) and the levels it opens:                  *)
(*   "arr" [ (1)   "obj" {"k": (1)   "mixed" [{"k": (2)   "pad" space[ (1) *)
(*   "arrnf" [0, (1)   "objnf" {"a":0,"k": (1): every container is a      *)
(*   NON-first element / member of its parent; "objsp" {"k":space (1)      *)
(*   "warm": short documents were detected first in the same process       *)
(* closed: the matching closers (after a scalar) follow the N units.       *)
(* The closed form below is what JsonScan establishes for small caps       *)
(* (MC_JsonNest: LvlBound, RejectedBeyondCap, C08Whole, C08Trunc) instantiated with the  *)
(* real cap.                                                               *)
(***************************************************************************)
EXTENDS Integers, Sequences, TLC, Json, IOUtils

RealCap == 4096
Trace == ndJsonDeserialize(IOEnv.TRACE)
VARIABLE l
UnitLen(s) == CASE s = "arr" -> 1 [] s = "obj" -> 5 [] s = "mixed" -> 6 [] s = "pad" -> 2 [] s = "arrc" -> 1 [] s = "arrnf" -> 3 [] s = "objnf" -> 12 [] s = "objsp" -> 6
UnitLvl(s) == CASE s = "mixed" -> 2 [] OTHER -> 1
Min(a, b) == IF a < b THEN a ELSE b

PLvl(r) == IF r.plen > 0 THEN 1 ELSE 0          \* every prefix opens exactly one level and holds one completed value
TotalLen(r) == r.plen + UnitLen(r.shape) * r.n + (IF r.closed THEN 1 + UnitLvl(r.shape) * r.n ELSE 0)
Whole(r) == r.limit = 0 \/ TotalLen(r) < r.limit
\* units visible in the examined header (limits are multiples of the unit length)
UnitsSeen(r) == IF Whole(r) THEN r.n ELSE Min(r.n, (r.limit - r.plen) \div UnitLen(r.shape))
Depth(r) == PLvl(r) + UnitLvl(r.shape) * UnitsSeen(r)
\* the header is a complete valid document
\* "arrc" puts a comma where the innermost value must stand: malformed at every depth
Malformed(r) == r.shape = "arrc" /\ r.closed /\ (Whole(r) \/ r.limit > UnitLen(r.shape) * r.n)
Complete(r) == r.shape # "arrc" /\ r.plen = 0 /\ r.closed /\ (Whole(r) \/ r.limit = TotalLen(r))
\* the header is a proper prefix of a valid document examined in truncated mode
ValidPrefix(r) == ~Whole(r) /\ r.limit > 0 /\ ~Malformed(r)

Check(name, cond) == IF cond THEN TRUE ELSE PrintT(<<"VIOLATION", name, l>>)

Init == l = 1 /\ TLCSet(42, 1)
Consume == /\ l <= Len(Trace)
           /\ LET r == Trace[l] IN
                /\ Check("C16", r.returned)                                   \* the call came back
                /\ Check("C16", r.maxlvl <= 2 * RealCap + 8)                  \* recursion bounded by a constant that does not depend on the input (how levels are counted is an implementation detail)
                \* the exact level reached is an implementation detail: a difference is drift, not a violation
                /\ (IF r.parses > 0 => r.maxlvl = Min(IF Complete(r) THEN Depth(r) ELSE Depth(r) - 1, RealCap + 1)
                    THEN TRUE ELSE PrintT(<<"DRIFT", l, r.maxlvl>>))
                /\ Check("C16", Depth(r) >= RealCap + 2 => r.cls = "")        \* beyond the cap: not JSON
                /\ Check("C08", (r.entry \in {"Detect", "DetectReader", "json"} /\ Depth(r) <= RealCap /\ Depth(r) > 0
                                  /\ (Complete(r) \/ ValidPrefix(r))) => r.cls # "")
                /\ Check("C09", (Whole(r) /\ ~r.closed) => r.cls = "")
                /\ Check("C09", Malformed(r) => r.cls = "")
           /\ l' = l + 1 /\ TLCSet(42, l + 1)
Spec == Init /\ [][Consume]_l
Accepted == TLCGet(42) = Len(Trace) + 1
=============================================================================
