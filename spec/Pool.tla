-------------------------------- MODULE Pool --------------------------------
(***************************************************************************)
(* C04: scratch state recycled through sync.Pool must never leak from one  *)
(* detection into the next.                                                *)
(*   parserPool  parserState{ib, currPath, firstToken, querySatisfied,     *)
(*               failed}  -- Parse: Get, reset(), scan, drop an oversized  *)
(*               path, Put                  (internal/json/parser.go:113-143)*)
(*   readerPool  bufio.Reader -- newReader: Get, Reset(r), read, Put       *)
(*                                          (internal/magic/text_csv.go:13-25)*)
(* A detection of palette input x leaves a characteristic kind of garbage  *)
(* in each pool.  The model runs every call from the state it actually     *)
(* inherits; a call started from anything but the fresh state is "tainted" *)
(* (its outputs could depend on history).  TLC enumerates every history of *)
(* up to MaxCalls calls and checks that no call is ever tainted; each      *)
(* history is then replayed on the real package, where every call must     *)
(* give the answer the same call gives in a fresh process.                 *)
(***************************************************************************)
EXTENDS Integers, Sequences, FiniteSets, TLC
CONSTANTS Palette,    \* abstract inputs / operations
          MaxCalls

\* garbage a finished scan leaves in the pooled parser: [ib, plen, first, qsat, failed]
Fresh == [ib |-> 0, plen |-> 0, first |-> 0, qsat |-> FALSE, failed |-> FALSE]
ParserGarbage(x) ==
    CASE x = "geo"       -> [ib |-> 30, plen |-> 0, first |-> 128, qsat |-> TRUE, failed |-> FALSE]
      [] x = "rdgeo"     -> [ib |-> 30, plen |-> 0, first |-> 128, qsat |-> TRUE, failed |-> FALSE]
      [] x = "har"       -> [ib |-> 40, plen |-> 0, first |-> 128, qsat |-> TRUE, failed |-> FALSE]
      [] x = "abortdeep" -> [ib |-> 24, plen |-> 4, first |-> 128, qsat |-> FALSE, failed |-> TRUE]
      [] x = "path200"   -> [ib |-> 1000, plen |-> 200, first |-> 128, qsat |-> TRUE, failed |-> TRUE]
      [] x = "truncjson" -> [ib |-> 3072, plen |-> 1, first |-> 64, qsat |-> TRUE, failed |-> TRUE]
      [] x = "scalar"    -> [ib |-> 3, plen |-> 0, first |-> 16, qsat |-> TRUE, failed |-> FALSE]
      [] x = "ndjson"    -> [ib |-> 7, plen |-> 0, first |-> 128, qsat |-> TRUE, failed |-> FALSE]
      [] OTHER           -> Fresh
UsesParser(x) == x \in {"geo", "har", "abortdeep", "path200", "truncjson", "scalar", "ndjson", "huge", "blanklines", "wsjson", "rdgeo"}
\* bytes left unread in the pooled bufio.Reader
ReaderGarbage(x) == CASE x = "csvabort" -> 4000 [] x = "csvtsvabort" -> 4 [] x = "csvok" -> 0 [] OTHER -> 0
UsesReader(x) == x \in {"csvabort", "csvtsvabort", "onerec", "csvok", "scalar", "plain"}    \* text inputs that reach the CSV check

VARIABLES parser, reader, tainted, hist
vars == <<parser, reader, tainted, hist>>
Init == parser = Fresh /\ reader = 0 /\ tainted = FALSE /\ hist = <<>>

\* Parse(): Get -> reset() -> scan -> drop oversized path -> Put
Reset(p) == [p EXCEPT !.ib = 0, !.plen = 0, !.first = 0, !.qsat = FALSE, !.failed = FALSE]
PutParser(p) == IF p.plen > 128 THEN [p EXCEPT !.plen = 0] ELSE p
\* newReader(): Get -> Reset(r)
ResetReader(b) == 0

Call(x) ==
    /\ Len(hist) < MaxCalls
    /\ LET p0 == IF UsesParser(x) THEN Reset(parser) ELSE parser
           r0 == IF UsesReader(x) THEN ResetReader(reader) ELSE reader
       IN /\ tainted' = (tainted \/ (UsesParser(x) /\ p0 # Fresh) \/ (UsesReader(x) /\ r0 # 0))
          /\ parser' = IF UsesParser(x) THEN PutParser(ParserGarbage(x)) ELSE parser
          /\ reader' = IF UsesReader(x) THEN ReaderGarbage(x) ELSE reader
    /\ hist' = Append(hist, x)
Next == \E x \in Palette : Call(x)
Spec == Init /\ [][Next]_vars

\* C04 at design level: no call ever starts from inherited state
NeverTainted == ~tainted
\* the pool never retains an oversized path stack
PathBounded == parser.plen <= 128
=============================================================================
