------------------------------ MODULE ZipWalk ------------------------------
(***************************************************************************)
(* C19 (and the zip part of C01): identification of zip-based formats from *)
(* the names of the leading local entries.                                 *)
(*                                                                         *)
(* An archive is a sequence of entries written by a standard zip writer:   *)
(*   [name, extra, csize, desc]                                            *)
(*     name  : a name class (its length and which signatures it starts     *)
(*             with are given by the tables below)                         *)
(*     extra : length of the extra field of the local header               *)
(*     csize : number of body bytes that follow the local header           *)
(*     desc  : length of the data descriptor after the body (0 = none; the *)
(*             size fields of the local header are then real, otherwise 0) *)
(* followed by a central directory (which contains no local-header         *)
(* signature); bodies are free of the signature "PK\3\4".  Offsets follow  *)
(* by arithmetic.                                                          *)
(*                                                                         *)
(* Implementation-shaped: zipContains (internal/magic/zip.go:48-112) as    *)
(* cursor arithmetic over the layout, with the bounds of every slice       *)
(* expression asserted (C01).  Reference: the statement of C19.            *)
(***************************************************************************)
EXTENDS Integers, Sequences, FiniteSets, TLC

(* ---------------- name classes ---------------- *)
NameLen(n) == CASE n = "ct" -> 19        \* [Content_Types].xml
                [] n = "rels" -> 11      \* _rels/.rels
                [] n = "docprops" -> 16  \* docProps/app.xml
                [] n = "customxml" -> 19 \* customXml/item1.xml
                [] n = "trash" -> 16     \* [trash]/0000.dat
                [] n = "word" -> 17      \* word/document.xml
                [] n = "xl" -> 15        \* xl/workbook.xml
                [] n = "ppt" -> 20       \* ppt/presentation.xml
                [] n = "manifest" -> 20  \* META-INF/MANIFEST.MF
                [] n = "android" -> 19   \* AndroidManifest.xml
                [] n = "dex" -> 11       \* classes.dex
                [] n = "mimetype" -> 8   \* mimetype
                [] n = "nm_word" -> 4    \* word          (near miss: no slash)
                [] n = "nm_Word" -> 6    \* Word/x        (near miss: case)
                [] n = "nm_xl" -> 6      \* xl.txt
                [] n = "nm_manifest" -> 21 \* XMETA-INF/MANIFEST.MF
                [] n = "nm_mimetypes" -> 9 \* mimetypes
                [] n = "u1" -> 1         \* a
                [] n = "u12" -> 12       \* dir/file.txt
                [] n = "u40" -> 40
                [] n = "u200" -> 200
\* signatures a name class starts with
Sigs == {"word/", "xl/", "ppt/", "manifest", "apk"}
Has(n, sig) == CASE sig = "word/" -> n = "word" [] sig = "xl/" -> n = "xl" [] sig = "ppt/" -> n = "ppt"
                 [] sig = "manifest" -> n = "manifest" [] sig = "apk" -> n \in {"android", "dex"}
SkipList(n) == n \in {"ct", "rels", "docprops", "customxml", "trash"}

(* ---------------- layout arithmetic ---------------- *)
RECURSIVE HdrOff(_, _)
EntryLen(e) == 30 + NameLen(e.name) + e.extra + e.csize + e.desc
HdrOff(a, i) == IF i = 1 THEN 0 ELSE HdrOff(a, i - 1) + EntryLen(a[i - 1])
RECURSIVE CdLen(_, _)
CdLen(a, i) == IF i > Len(a) THEN 22 ELSE 46 + NameLen(a[i].name) + CdLen(a, i + 1)
FileLen(a) == HdrOff(a, Len(a)) + EntryLen(a[Len(a)]) + CdLen(a, 1)
CsizeField(e) == IF e.desc > 0 THEN 0 ELSE e.csize
\* index (entry number) of the first local header at or after byte offset p, 0 if none
NextHdr(a, p) == LET c == {i \in 1..Len(a) : HdrOff(a, i) >= p} IN
                 IF c = {} THEN 0 ELSE CHOOSE i \in c : \A j \in c : i <= j

(* ---------------- zipContains as coded (zip.go:48-112) ---------------- *)
\* result: [ok |-> verdict, inb |-> every slice / index expression stayed inside the buffer]
RECURSIVE Hops(_, _, _, _)
Hops(a, sig, j, k) ==      \* cursor at the name of entry j; k hops left
    IF k = 0 THEN FALSE
    ELSE LET nx == NextHdr(a, HdrOff(a, j) + 30) IN        \* bytes.Index(b, pk) from the name of entry j
         IF nx = 0 THEN FALSE
         ELSE IF Has(a[nx].name, sig) THEN TRUE
         ELSE Hops(a, sig, nx, k - 1)
ZipContains(a, sig, mso) ==
    LET L == FileLen(a) IN
    IF L < 30 THEN FALSE
    ELSE IF Has(a[1].name, sig) THEN TRUE
    ELSE IF mso /\ ~SkipList(a[1].name) THEN FALSE
    ELSE LET so == CsizeField(a[1]) + 49 IN
         IF 30 + so > L THEN FALSE                                      \* b.advance(searchOffset)
         ELSE LET nx == NextHdr(a, so) IN                               \* bytes.Index(raw[searchOffset:], pk)
              IF nx = 0 THEN FALSE
              ELSE IF Has(a[nx].name, sig) THEN TRUE
              ELSE Hops(a, sig, nx, 4)
\* C01: the offsets used for slicing are inside the buffer whenever they are used
InBounds(a) == LET L == FileLen(a)  so == CsizeField(a[1]) + 49 IN
               L >= 30 => (30 + so <= L => so <= L)

Xlsx(a) == ZipContains(a, "xl/", TRUE)
Docx(a) == ZipContains(a, "word/", TRUE)
Pptx(a) == ZipContains(a, "ppt/", TRUE)
Apk(a) == ZipContains(a, "apk", FALSE)
Jar(a) == ZipContains(a, "manifest", FALSE)
\* first match among the children of application/zip in tree order (the ODF / EPUB
\* children are excluded by construction: see MimetypeFirst)
ModelClass(a) == IF Xlsx(a) THEN "xlsx" ELSE IF Docx(a) THEN "docx" ELSE IF Pptx(a) THEN "pptx"
                 ELSE IF Apk(a) THEN "apk" ELSE IF Jar(a) THEN "jar" ELSE "zip"

(* ---------------- reference: the statement of C19 ---------------- *)
FirstSix(a) == 1..(IF Len(a) < 6 THEN Len(a) ELSE 6)
Among(a, S, sig) == \E i \in S : Has(a[i].name, sig)
AllIdx(a) == 1..Len(a)
ClassSig(c) == CASE c = "xlsx" -> "xl/" [] c = "docx" -> "word/" [] c = "pptx" -> "ppt/" [] c = "jar" -> "manifest" [] c = "apk" -> "apk"
Allowed(a) ==
    IF a[1].name = "ct" /\ \E c \in {"xlsx", "docx", "pptx"} : Among(a, FirstSix(a), ClassSig(c))
    THEN {c \in {"xlsx", "docx", "pptx"} : Among(a, FirstSix(a), ClassSig(c))}
    ELSE IF a[1].name = "manifest"
    THEN {"jar"} \cup (IF Among(a, AllIdx(a), "apk") THEN {"apk"} ELSE {})
    ELSE {"zip"} \cup {c \in {"xlsx", "docx", "pptx", "jar", "apk"} : Among(a, AllIdx(a), ClassSig(c))}
=============================================================================
