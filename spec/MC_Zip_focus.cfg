SPECIFICATION Spec
CONSTANTS
  Names <- NamesQuick
  Sizes = {12}
  Extras = {0}
  MaxEntries = 7
  Focus = TRUE
INVARIANTS DesignC19 DesignC01 Dump
CHECK_DEADLOCK FALSE
