SPECIFICATION Spec
CONSTANTS
  MaxLen = 2
INVARIANTS ChainsRooted HistoryFree Dump
CHECK_DEADLOCK FALSE
