SPECIFICATION Spec
CONSTANTS
  Mode = "tags"
  LabelSet <- QuickLabels
INVARIANTS TagInv ContentInv DumpDocs
CHECK_DEADLOCK FALSE
