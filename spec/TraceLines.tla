----------------------------- MODULE TraceLines -----------------------------
(***************************************************************************)
(* C13 trace validation on generated files beyond the exhaustive bound.    *)
(* The generator knows the abstract structure of each file and logs it     *)
(* with every detection:                                                   *)
(*   kind    "csv" | "tsv" | "nd"                                           *)
(*   lines   per physical line: [n, end, val, blank, objarr]                *)
(*             n   = field count of a record line, 0 for blank / comment    *)
(*             end = offset just past its terminator (file length for an    *)
(*                   unterminated last line), term = it has a terminator    *)
(*             val / blank / objarr = NDJSON facts about the line           *)
(*   hl, limit, result (bare type of the leaf), exempt                      *)
(* The reference predicates are those of Lines.tla, on this structure.      *)
(***************************************************************************)
EXTENDS Integers, Sequences, FiniteSets, TLC, Json, IOUtils
Log == ndJsonDeserialize(IOEnv.TRACE)
VARIABLE l
E == Log[l]
Check(name, what, cond) == IF cond THEN TRUE ELSE PrintT(<<"VIOLATION", name, l, what>>)
Whole(e) == e.limit = 0 \/ e.hl < e.limit
Complete(e, i) == IF e.lines[i].term THEN e.lines[i].end <= e.hl ELSE (Whole(e) /\ e.hl = e.lines[i].end)
Recs(e) == {i \in 1..Len(e.lines) : e.lines[i].n > 0}
CRecs(e) == {i \in Recs(e) : Complete(e, i)}
CLines(e) == {i \in 1..Len(e.lines) : Complete(e, i)}
TypeOf(k) == CASE k = "csv" -> "text/csv" [] k = "tsv" -> "text/tab-separated-values" [] k = "nd" -> "application/x-ndjson"
Rect(e) == \A i \in Recs(e) : \A j \in Recs(e) : e.lines[i].n = e.lines[j].n /\ e.lines[i].n >= 2
Must(e) == IF e.kind = "nd"
           THEN /\ \A i \in 1..Len(e.lines) : e.lines[i].val
                /\ Cardinality(CLines(e)) >= 2 /\ \E i \in CLines(e) : e.lines[i].objarr
           ELSE Rect(e) /\ Cardinality(CRecs(e)) >= 2
May(e) == IF e.kind = "nd"
          THEN /\ Cardinality(CLines(e)) >= 2
               /\ \A i \in CLines(e) : e.lines[i].val \/ e.lines[i].blank
               /\ \E i \in CLines(e) : e.lines[i].objarr
          ELSE \A i \in CRecs(e) : \A j \in CRecs(e) : e.lines[i].n = e.lines[j].n /\ e.lines[i].n >= 2
Init == l = 1 /\ TLCSet(42, 1)
Next == /\ l <= Len(Log)
        /\ Check("C13", "well-formed file cut after its second complete line lost its type", (Must(E) /\ ~E.exempt) => E.result = TypeOf(E.kind))
        /\ Check("C13", "type reported although a complete line is damaged or ragged", E.result = TypeOf(E.kind) => May(E))
        /\ l' = l + 1 /\ TLCSet(42, l + 1)
Spec == Init /\ [][Next]_l
Accepted == TLCGet(42) = Len(Log) + 1
=============================================================================
