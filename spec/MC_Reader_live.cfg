SPECIFICATION FairSpec
CONSTANTS
  MaxData = 3
  MaxLimit = 4
  Chunk = 2
PROPERTIES Terminates
CHECK_DEADLOCK FALSE
