------------------------------- MODULE Bounds -------------------------------
(***************************************************************************)
(* C01: index arithmetic driven by attacker-controlled header fields.      *)
(* Each walker is transcribed with every slice / index expression guarded  *)
(* by an explicit in-bounds obligation 0 <= lo <= hi <= len; the operator   *)
(* returns [inb |-> all obligations hold, ok |-> verdict].                 *)
(*   CRX            internal/magic/archive.go:67-80   (uint32 wrap-around)  *)
(*   matchOleClsid  internal/magic/ms_office.go:163-186                     *)
(*   Matroska       internal/magic/video.go:45-74                           *)
(*   zipContains    internal/magic/zip.go:48-112 with a hostile size field  *)
(* TLC enumerates (length, field) tuples around every boundary; each tuple  *)
(* is concretised into a header of exactly that length (exact capacity) and *)
(* run through the real detector and Detect, which must return.            *)
(***************************************************************************)
EXTENDS Integers, Sequences, FiniteSets, TLC
\* TLC integers are 32-bit, so the machine word is scaled: M plays the role of 2^32.  Field
\* values are mapped back by the concretiser (v >= M - 1000 -> v + 2^32 - M; v within 2 of M/2 ->
\* v + 2^31 - M/2); sums of mapped values reduce modulo 2^32 exactly as the scaled ones do modulo M.
U32 == 65536

\* ---- CRX: zipOffset := 16 + pubkeyLen + sigLen in uint32
Crx(len, pk, sl, zipAt) ==      \* zipAt: TRUE if a zip signature sits at the computed offset
    IF len < 16 THEN [inb |-> TRUE, ok |-> FALSE]
    ELSE LET zo == (16 + pk + sl) % U32 IN
         IF (len % U32) < zo THEN [inb |-> TRUE, ok |-> FALSE]
         ELSE [inb |-> zo <= len, ok |-> zipAt /\ len - zo > 3]       \* raw[zipOffset:]

\* ---- OLE: clsidOffset := sector*(1+firstSecID)+80
Ole(len, v4, sid, clsidAt) ==
    IF len < 512 THEN [inb |-> TRUE, ok |-> FALSE]
    ELSE LET sector == IF v4 THEN 4096 ELSE 512
             off == sector * (1 + sid) + 80 IN
         IF len <= off + 16 THEN [inb |-> 52 <= len, ok |-> FALSE]     \* in[26], in[27], in[48:52]
         ELSE [inb |-> 52 <= len /\ off <= len /\ off + 16 <= len, ok |-> clsidAt]   \* in[clsidOffset:], 16-byte prefix

\* ---- Matroska: marker 42 82 at index p (0 = absent) inside in[:min(len,4096)], then a vint of width w
Mkv(len, p, w, nameAt) ==
    IF len < 4 THEN [inb |-> TRUE, ok |-> FALSE]
    ELSE LET maxInd == IF len < 4096 THEN len ELSE 4096
             found == p > 0 /\ p + 2 <= maxInd IN                       \* bytes.Index(in[:maxInd], marker)
         IF ~(found /\ len > p + 2) THEN [inb |-> maxInd <= len, ok |-> FALSE]
         ELSE LET ind == p + 2 IN                                       \* in[ind] is read
              IF len > ind + w THEN [inb |-> ind < len /\ ind + w <= len, ok |-> nameAt]
              ELSE [inb |-> ind < len, ok |-> FALSE]

\* ---- zipContains with a hostile compressed-size field in the first local header
ZipHostile(len, csize) ==
    IF len < 30 THEN [inb |-> TRUE, ok |-> FALSE]
    ELSE LET so == (csize + 49) % U32 IN                                \* uint32 arithmetic, then int()
         IF so < 0 \/ len - 30 < so THEN [inb |-> 22 <= len, ok |-> FALSE]          \* advance refuses; raw[18:] was read
         ELSE [inb |-> 22 <= len /\ so <= len, ok |-> FALSE]                         \* raw[searchOffset:]
=============================================================================
