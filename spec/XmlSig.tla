------------------------------- MODULE XmlSig -------------------------------
(***************************************************************************)
(* The XML-signature detectors (magic.go:75-101: xml, xmlCheck) and the    *)
(* two subtitle detectors (text.go: Srt, Vtt), implementation-shaped, over *)
(* TOKEN strings: a token stands for a fixed byte string whose length the  *)
(* specification knows, so that the 512-byte window of xmlCheck and the    *)
(* 29-byte timestamp line of Srt are modelled with real offsets while TLC  *)
(* enumerates short token strings.  The Go concretiser writes each token   *)
(* out and the real detectors (rss, atom, gml, srt, vtt nodes of the tree) *)
(* must agree (drift otherwise); every call must return (C01).             *)
(***************************************************************************)
EXTENDS Integers, Sequences, FiniteSets
CONSTANTS LenL,     \* bytes of the local-name signature "<feed"
          LenN,     \* bytes of the namespace signature
          LenPad,   \* bytes of the "pad" token (filler that cannot start a signature)
          Window    \* 512

\* ---- xmlCheck over tokens "L" "N" "x" (one filler byte) "ws" (one blank) "pad"
XTokLen(t) == CASE t = "L" -> LenL [] t = "N" -> LenN [] t = "pad" -> LenPad [] OTHER -> 1
RECURSIVE XTrim(_)
XTrim(s) == IF s # <<>> /\ s[1] = "ws" THEN XTrim(Tail(s)) ELSE s
RECURSIVE XOffsets(_, _)
XOffsets(s, at) == IF s = <<>> THEN <<>> ELSE <<at>> \o XOffsets(Tail(s), at + XTokLen(s[1]))
XTotal(s) == IF s = <<>> THEN 0 ELSE XOffsets(s, 0)[Len(s)] + XTokLen(s[Len(s)])
\* bytes.Index(raw[:min(len, Window)], sig): offset of the first occurrence lying wholly inside the window
XIndex(s, tok) ==
    LET off == XOffsets(s, 0)
        lim == IF XTotal(s) < Window THEN XTotal(s) ELSE Window
        hits == {i \in 1..Len(s) : s[i] = tok /\ off[i] + XTokLen(tok) <= lim}
    IN IF hits = {} THEN -1 ELSE off[CHOOSE i \in hits : \A j \in hits : i <= j]
\* kind: "both" (atom), "L" (rss: no namespace), "N" (gml: no local name)
XmlCheck(kind, s0) ==
    LET s == XTrim(s0) IN
    IF s = <<>> THEN FALSE
    ELSE CASE kind = "N" -> XIndex(s, "N") > 0
           [] kind = "L" -> XIndex(s, "L") > 0
           [] OTHER -> XIndex(s, "L") # -1 /\ XIndex(s, "L") < XIndex(s, "N")
\* the slice raw[:min(len(raw), 512)] is always in bounds; Index results are only compared, never used as indices
XmlInBounds(s0) == LET n == XTotal(XTrim(s0)) IN (IF n < Window THEN n ELSE Window) <= n
\* reference reading: within the first Window bytes after leading blanks, the signature occurs and the document
\* does not BEGIN with it (one-sided forms); for the two-sided form the element name occurs before the first
\* namespace declaration
XmlRef(kind, s0) ==
    LET s == XTrim(s0)
        off == XOffsets(s, 0)
        In(i) == off[i] + XTokLen(s[i]) <= Window
    IN CASE kind = "N" -> s[1] # "N" /\ \E i \in 2..Len(s) : s[i] = "N" /\ In(i)
         [] kind = "L" -> s[1] # "L" /\ \E i \in 2..Len(s) : s[i] = "L" /\ In(i)
         [] OTHER -> \E i \in 1..Len(s) : (s[i] = "L" /\ In(i)
                                             /\ (\E j \in (i + 1)..Len(s) : s[j] = "N" /\ In(j))
                                             /\ (\A j \in 1..(i - 1) : ~(s[j] = "N" /\ In(j))))

\* ---- Vtt over tokens "bom" "W" (the word WEBVTT) "lf" "cr" "sp" "tab" "x"
VttAccept(s) ==
    LET body == IF s # <<>> /\ s[1] = "bom" THEN Tail(s) ELSE s IN
    /\ body # <<>> /\ body[1] = "W"
    /\ (Len(body) = 1 \/ body[2] \in {"lf", "cr", "sp", "tab"})

\* ---- Srt over tokens: "one" ('1') "two" ('2') "lf" "cr" "txt" (a word) and timestamp lines
\*      "ts" (valid, t0 <= t1) "tsrev" (t0 after t1) "tsdot" (period as decimal separator) "tsshort" (28 bytes)
\*      "tsbad" (29 bytes, not a time)
IsTs(t) == t \in {"ts", "tsrev", "tsdot", "tsshort", "tsbad"}
\* scanLine: cut at the first LF, drop ONE trailing CR; returns <<line, rest>>
FirstLf(s) == LET nl == {i \in 1..Len(s) : s[i] = "lf"} IN IF nl = {} THEN 0 ELSE CHOOSE i \in nl : \A j \in nl : i <= j
ScanLine(s) == LET k == FirstLf(s)
                   ln == IF k = 0 THEN s ELSE SubSeq(s, 1, k - 1)
                   rest == IF k = 0 THEN <<>> ELSE SubSeq(s, k + 1, Len(s))
                   ln2 == IF ln # <<>> /\ ln[Len(ln)] = "cr" THEN SubSeq(ln, 1, Len(ln) - 1) ELSE ln
               IN <<ln2, rest>>
SrtAccept(s) ==
    LET a == ScanLine(s)
        b == ScanLine(a[2])
        c == ScanLine(b[2])
    IN /\ a[1] = <<"one">>
       /\ b[1] = <<"ts">>          \* exactly 29 bytes, no '.', " --> " present, both stamps parse, t0 <= t1
       /\ c[1] # <<>>
=============================================================================
