----------------------------- MODULE TraceJson -----------------------------
(***************************************************************************)
(* Trace validation for the JSON family (C08 C09 C10 C13-ndjson C16 C04).  *)
(* The trace is NDJSON recorded from the real package by `vdrive jsontrace`:*)
(*   {"ev":"parse", "q":.., "raw":[bytes], "parsed":.., "inspected":..,    *)
(*    "first":.., "qsat":.., "dirty":[ib,pathlen,first,qsat], "pathlen":..,*)
(*    "maxlvl":..}                      one per json.Parse call (exit hook)*)
(*   {"ev":"detect", "raw":[header], "limit":L, "inlen":N, "cls":..,       *)
(*    "exempt":b}                       one per Detect call                *)
(* For "parse" records the implementation-shaped machine of JsonScan is    *)
(* re-run on the logged bytes (silent Step actions) and its observables are*)
(* compared with the logged ones (mismatch = drift, printed, not a         *)
(* violation).  For both kinds the property invariants relate the REAL     *)
(* logged outcome to the reference recognisers.                            *)
(***************************************************************************)
EXTENDS JsonScan, Json, IOUtils

Trace == ndJsonDeserialize(IOEnv.TRACE)

VARIABLES l, phase      \* l: next record; phase: "idle" | "run" (machine loaded for record l)
tvars == <<vars, l, phase>>

Rec == Trace[l]
RawOf(rec) == rec.raw

TraceInit == /\ inp = <<>> /\ eof = TRUE /\ Fresh(0) /\ ref = RefInit /\ qt = "json" /\ nch = 0
             /\ l = 1 /\ phase = "idle"
             /\ TLCSet(42, 1)

\* load a parse record into the machine
TraceLoad == /\ phase = "idle" /\ l <= Len(Trace) /\ Rec.ev = "parse"
             /\ inp' = RawOf(Rec) /\ eof' = TRUE /\ qt' = Rec.q
             /\ ib' = 0 /\ stk' = <<Frame("any", "enter", 0)>> /\ path' = <<>>
             /\ first' = TokInvalid /\ qsat' = FALSE /\ done' = FALSE /\ ok' = FALSE
             /\ ref' = RefOf(RawOf(Rec)) /\ nch' = 0
             /\ phase' = "run" /\ l' = l

TraceRun == /\ phase = "run" /\ ~done /\ Step /\ UNCHANGED <<l, phase>>

Check(name, cond) == IF cond THEN TRUE ELSE PrintT(<<"VIOLATION", name, l>>)

(* ---------------- property invariants on REAL observations ---------------- *)
WholeMode(rec) == rec.limit = 0 \/ Len(rec.raw) < rec.limit
InFam(rec) == rec.cls # ""
RealCap == 4096
HasOpen(s) == \E i \in 1..Len(s) : s[i] \in {LBRACK, LBRACE}

\* rf = RefOf(header); all three relate the REAL outcome logged in rec to the reference
TC08(rec, rf) == (~rec.exempt /\ rf.s.maxd <= RealCap) =>
                    IF WholeMode(rec) THEN (RAccepting(rf.s) => InFam(rec))
                    ELSE ((RLive(rf.s) /\ HasOpen(rec.raw)) => InFam(rec))
TC09(rec, rf) == InFam(rec) => IF WholeMode(rec) THEN RAccepting(rf.r) ELSE RLive(rf.r)
\* (a document that C08 obliges to be in the family and that is reported outside it also misses its class)
TC10(rec, rf) == ((InFam(rec) \/ (~rec.exempt /\ (~WholeMode(rec) => HasOpen(rec.raw))))
                  /\ RLive(rf.s) /\ rf.s.maxd <= RealCap /\ (WholeMode(rec) => RAccepting(rf.s)))
                    => rec.cls \in AllowedClasses(rf.t, rf.s)
\* C16: the real scanner's recursion level never exceeds cap+1, whatever the input
TC16(rec) == rec.maxlvl <= 2 * RealCap + 8

ParseMatches == /\ Rec.parsed = Parsed /\ Rec.inspected = ib /\ Rec.first = first /\ Rec.qsat = qsat
TraceParseDone == /\ phase = "run" /\ done
                  /\ (IF ParseMatches THEN TRUE ELSE PrintT(<<"DRIFT", l, Parsed, ib, first, qsat>>))
                  /\ Check("C16", TC16(Rec))
                  /\ l' = l + 1 /\ phase' = "idle" /\ TLCSet(42, l + 1)
                  /\ UNCHANGED vars

\* a detect record: one step, reference only
TraceDetect == /\ phase = "idle" /\ l <= Len(Trace) /\ Rec.ev = "detect"
               /\ LET rf == RefOf(RawOf(Rec)) IN
                    /\ Check("C08", TC08(Rec, rf))
                    /\ Check("C09", TC09(Rec, rf))
                    /\ Check("C10", TC10(Rec, rf))
                    /\ ref' = rf
               /\ inp' = RawOf(Rec) /\ eof' = TRUE
               /\ l' = l + 1 /\ TLCSet(42, l + 1)
               /\ UNCHANGED <<ib, stk, path, first, qsat, done, ok, qt, nch, phase>>

TraceNext == TraceLoad \/ TraceRun \/ TraceParseDone \/ TraceDetect
TraceSpec == TraceInit /\ [][TraceNext]_tvars

TraceAccepted == TLCGet(42) = Len(Trace) + 1
=============================================================================
