SPECIFICATION Spec
CONSTANT Full = FALSE
INVARIANTS Resolves Dump
CHECK_DEADLOCK FALSE
