SPECIFICATION Spec
CONSTANTS
  Mode = "nd"
  MaxRows = 3
  SpecialKinds = {}
  InsKinds = {}
INVARIANTS DesignNd Dump
CHECK_DEADLOCK FALSE
