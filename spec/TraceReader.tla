---------------------------- MODULE TraceReader ----------------------------
(***************************************************************************)
(* C05 trace validation: every r.Read call made by the real DetectReader   *)
(* on an instrumented reader is logged (room offered, bytes returned,      *)
(* error class), followed by the outcome of the call.  The trace is a      *)
(* sequence of cases:                                                      *)
(*   {"ev":"begin","dlen":D,"limit":L,"fault":F}      (F = -1: no fault)   *)
(*   {"ev":"read","room":R,"k":K,"e":"nil"|"EOF"|"Fault"}                   *)
(*   {"ev":"end","n":N,"err":"nil"|"Fault"|"other","same":b,"root":b}       *)
(* Each read must be a step of ReaderPath!Read (with the logged room, which*)
(* must itself respect the limit); the outcome must be what Finish yields. *)
(***************************************************************************)
EXTENDS ReaderPath, Json, IOUtils
Log == ndJsonDeserialize(IOEnv.TRACE)
VARIABLE l
E == Log[l]
Check(name, what, cond) == IF cond THEN TRUE ELSE PrintT(<<"VIOLATION", name, l, what>>)
Adv == l' = l + 1 /\ TLCSet(42, l + 1)

TInit == /\ l = 1 /\ TLCSet(42, 1) /\ dlen = 0 /\ limit = 0 /\ faultAt = NoFault /\ off = 0 /\ n = 0
         /\ err = "nil" /\ phase = "idle" /\ zeroes = 0 /\ hist = <<>>
TBegin == /\ l <= Len(Log) /\ E.ev = "begin" /\ phase \in {"idle", "done"}
          /\ dlen' = E.dlen /\ limit' = E.limit /\ faultAt' = (IF E.fault < 0 THEN NoFault ELSE E.fault)
          /\ off' = 0 /\ n' = 0 /\ err' = "nil" /\ phase' = "reading" /\ zeroes' = 0 /\ hist' = <<>> /\ Adv
\* the real call offers E.room bytes; it must never offer more than the limit allows
TRead == /\ l <= Len(Log) /\ E.ev = "read" /\ phase = "reading"
         /\ Check("C05", "reads beyond the limit", limit > 0 => E.room <= limit - n)
         /\ Check("C05", "reads after the loop should have ended", LoopCond)
         /\ off' = off + E.k /\ n' = n + E.k /\ err' = E.e
         /\ zeroes' = 0 /\ hist' = <<>> /\ Adv
         /\ UNCHANGED <<dlen, limit, faultAt, phase>>
TEnd == /\ l <= Len(Log) /\ E.ev = "end" /\ phase = "reading"
        /\ LET ferr == IF limit = 0 THEN (IF err = "EOF" THEN "nil" ELSE err)
                       ELSE IF n >= limit THEN "nil" ELSE IF err = "EOF" THEN "nil" ELSE err
               faultBefore == faultAt # NoFault /\ (limit = 0 \/ faultAt < limit)
           IN /\ Check("C05", "more bytes consumed than the limit", limit > 0 => off <= limit)
              /\ Check("C05", "error not surfaced / spurious error", E.err = ferr)
              /\ Check("C05", "fault before the header was complete must surface", faultBefore => E.err = "Fault")
              /\ Check("C05", "error value must be application/octet-stream", E.err # "nil" => E.root)
              /\ Check("C05", "reader result differs from Detect on the same bytes", E.err = "nil" => (E.same /\ E.n = Wanted))
        /\ phase' = "done" /\ Adv
        /\ UNCHANGED <<dlen, limit, faultAt, off, n, err, zeroes, hist>>
TNext == TBegin \/ TRead \/ TEnd
TSpec == TInit /\ [][TNext]_<<vars, l>>
Accepted == TLCGet(42) = Len(Log) + 1
=============================================================================
