------------------------------- MODULE MC_Tar -------------------------------
(* Header shape classes a standard tar writer can emit; each is written by archive/tar *)
(* in the harness.  The arithmetic lemma is checked as an assumption.                  *)
EXTENDS Tar, TLC, Json
VARIABLE s
Formats == {"ustar", "pax", "gnu"}
Types == {"reg", "dir", "symlink", "hardlink", "char", "fifo", "symlink-gpkg", "hardlink-gpkg", "vendor-X", "vendor-A", "vendor-I"}   \* -gpkg: link TARGET ends in /gpkg-1
NameLens == {1, 60, 99, 100, 101, 155, 200, 256}
Numerics == {"small", "maxoctal", "huge"}
Unames == {"empty", "ascii", "nonascii"}
NameStarts == {"plain", "MZ", "PK34", "pdf", "gif", "dotslash", "nonascii",
               "bz2", "xar", "fits", "bmp", "id3", "flac", "riff", "ftyp"}   \* signatures of root formats consulted AFTER tar
Init == s \in [fmt : Formats, typ : Types, nlen : NameLens, num : Numerics, uname : Unames, start : NameStarts]
Next == UNCHANGED s
Spec == Init /\ [][Next]_s
ASSUME CorruptionLemma
Dump == PrintT(ToJson(s))
=============================================================================
