---------------------------- MODULE MetaPrescan ----------------------------
(***************************************************************************)
(* Declared charsets (C12) and hostile labels (C02).                       *)
(*                                                                         *)
(* Part 1, implementation-shaped: the per-<meta> algorithm of              *)
(* charset.go:174-240 (attribute de-duplication, gotPragma, needPragma,    *)
(* charset / content handling, utf-16 -> utf-8) over abstract attribute    *)
(* lists, and fromMetaElement (charset.go:242-275) over token strings.     *)
(* Part 2, reference from the statement: an abstract document is a record  *)
(* of orthogonal choices; Expected(doc) is "the declared label in lower    *)
(* case; utf-16* in an HTML meta maps to utf-8; a byte-order mark wins in  *)
(* HTML".  TLC enumerates the documents; the Go concretiser renders each   *)
(* one and the real Detect must report Expected.                           *)
(***************************************************************************)
EXTENDS Integers, Sequences, FiniteSets, TLC

(* ------------------------- Part 1a: one <meta> tag ------------------------- *)
\* attribute = [k |-> key, v |-> value]; values are abstract:
\*   charset=L            -> [k |-> "charset", v |-> L]
\*   http-equiv=...       -> [k |-> "http-equiv", v |-> "content-type" | "other"]
\*   content=...          -> [k |-> "content", v |-> L]  (L = label extracted by fromMetaElement, "" if none)
\*   name=...             -> [k |-> "name", v |-> "x"]
Undecided == [name |-> "", need |-> "dontKnow", got |-> FALSE, seen |-> {}]
AttrStep(st, a) ==
    IF a.k \in st.seen THEN st                      \* duplicate attributes are ignored
    ELSE LET s1 == [st EXCEPT !.seen = @ \cup {a.k}] IN
         CASE a.k = "http-equiv" -> IF a.v = "content-type" THEN [s1 EXCEPT !.got = TRUE] ELSE s1
           [] a.k = "content"    -> IF a.v # "" THEN [s1 EXCEPT !.name = a.v, !.need = "doNeed"] ELSE [s1 EXCEPT !.name = a.v]
           [] a.k = "charset"    -> [s1 EXCEPT !.name = a.v, !.need = "doNotNeed"]
           [] OTHER              -> s1
RECURSIVE AttrFold(_, _)
AttrFold(st, as) == IF as = <<>> THEN st ELSE AttrFold(AttrStep(st, Head(as)), Tail(as))
IsUtf16(lbl) == lbl \in {"utf-16", "utf-16le", "utf-16be"}
\* result of one <meta>: "" = keep scanning, otherwise the charset
MetaTag(as) ==
    LET st == AttrFold(Undecided, as) IN
    IF st.need = "dontKnow" \/ (st.need = "doNeed" /\ ~st.got) THEN ""
    ELSE IF IsUtf16(st.name) THEN "utf-8" ELSE st.name

\* reference for one tag: it declares label L iff it has a charset attribute, or a
\* content attribute carrying a label together with http-equiv=content-type
FirstOf(as, key) == LET idx == {i \in 1..Len(as) : as[i].k = key} IN
                    IF idx = {} THEN [k |-> key, v |-> ""] ELSE as[CHOOSE i \in idx : \A j \in idx : i <= j]
HasKey(as, key) == \E i \in 1..Len(as) : as[i].k = key
\* "single declaration" tags: exactly one of the two mechanisms is present
SingleCharset(as) == HasKey(as, "charset") /\ ~HasKey(as, "content")
SinglePragma(as) == ~HasKey(as, "charset") /\ HasKey(as, "content") /\ FirstOf(as, "content").v # ""
                    /\ FirstOf(as, "http-equiv").v = "content-type"
TagRef(as) == IF SingleCharset(as) THEN FirstOf(as, "charset").v
              ELSE IF SinglePragma(as) THEN FirstOf(as, "content").v
              ELSE "?"
Norm(lbl) == IF IsUtf16(lbl) THEN "utf-8" ELSE lbl
TagAgrees(as) == TagRef(as) # "?" => MetaTag(as) = Norm(TagRef(as))

(* ------------------------- Part 1b: fromMetaElement ------------------------- *)
\* content value as a token string over {"CS" (the word charset), "=", "sp", "dq", "sq", ";", "x", "L"}
\* "L" stands for one label character; the extracted label is the number of L tokens (as a count)
\* or -1 for "no label".
IsWs(t) == t = "sp"
RECURSIVE SkipWs(_)
SkipWs(s) == IF s # <<>> /\ IsWs(Head(s)) THEN SkipWs(Tail(s)) ELSE s
IndexOf(s, t) == LET idx == {i \in 1..Len(s) : s[i] = t} IN IF idx = {} THEN 0 ELSE CHOOSE i \in idx : \A j \in idx : i <= j
IndexOfAny(s, T) == LET idx == {i \in 1..Len(s) : s[i] \in T} IN IF idx = {} THEN 0 ELSE CHOOSE i \in idx : \A j \in idx : i <= j
Drop(s, n) == SubSeq(s, n + 1, Len(s))
RECURSIVE FromMetaElement(_)
FromMetaElement(s) ==
    IF s = <<>> THEN <<"none">>
    ELSE LET c == IndexOf(s, "CS") IN
         IF c = 0 THEN <<"none">>
         ELSE LET s1 == SkipWs(Drop(s, c)) IN
              IF s1 = <<>> \/ Head(s1) # "=" THEN FromMetaElement(s1)      \* `continue`
              ELSE LET s2 == SkipWs(Tail(s1)) IN
                   IF s2 = <<>> THEN <<"none">>
                   ELSE IF Head(s2) \in {"dq", "sq"}
                        THEN LET q == IndexOf(Tail(s2), Head(s2)) IN
                             IF q = 0 THEN <<"none">> ELSE <<"label", SubSeq(Tail(s2), 1, q - 1)>>
                        ELSE LET e == IndexOfAny(s2, {";", "sp"}) IN
                             <<"label", IF e = 0 THEN s2 ELSE SubSeq(s2, 1, e - 1)>>

(* ------------------------- Part 2: abstract documents ------------------------- *)
\* labels: raw spelling and its ASCII-lower-case form (token characters only)
Labels == { [raw |-> "utf-8", low |-> "utf-8"], [raw |-> "UTF-8", low |-> "utf-8"],
            [raw |-> "ISO-8859-1", low |-> "iso-8859-1"], [raw |-> "iso-8859-15", low |-> "iso-8859-15"],
            [raw |-> "windows-1252", low |-> "windows-1252"], [raw |-> "Windows-1251", low |-> "windows-1251"],
            [raw |-> "Shift_JIS", low |-> "shift_jis"], [raw |-> "EUC-KR", low |-> "euc-kr"],
            [raw |-> "koi8-r", low |-> "koi8-r"], [raw |-> "GB2312", low |-> "gb2312"],
            [raw |-> "utf-16", low |-> "utf-16"], [raw |-> "UTF-16LE", low |-> "utf-16le"], [raw |-> "utf-16be", low |-> "utf-16be"],
            [raw |-> "UTF-32", low |-> "utf-32"], [raw |-> "x", low |-> "x"], [raw |-> "Z", low |-> "z"],
            [raw |-> "x-Mac.Roman:1+2_b", low |-> "x-mac.roman:1+2_b"], [raw |-> "IBM850", low |-> "ibm850"],
            [raw |-> "us-ascii", low |-> "us-ascii"], [raw |-> "A1.b2:C3+d4_E5-f6", low |-> "a1.b2:c3+d4_e5-f6"] }
QuickLabels == { lb \in Labels : lb.raw \in {"UTF-8", "ISO-8859-1", "Shift_JIS", "UTF-16LE", "utf-16", "koi8-r", "x-Mac.Roman:1+2_b", "Z"} }

HtmlKinds == {"meta-charset", "pragma"}
Quotes == {"dq", "sq", "none"}
Orders == {"equiv-first", "content-first"}
Extras == {"none", "before", "after", "dup-charset-after"}
Cases == {"lower", "UPPER", "MiXed"}
Spacing == {"tight", "spaces", "newlines"}
Prologues == {"doctype", "html-head", "doctype-comment-fake", "doctype-script-fake", "doctype-title-fake",
              "doctype-other-meta", "doctype-content-without-equiv", "ws-doctype",
              "doctype-latin-comment", "head-closed", "body-first", "body-fragment",
              "doctype-long-comment", "doctype-long-script", "doctype-long-style"}   \* one token of > 4096 bytes before the declaration
BomsH == {"none", "utf-8"}
LimitRel == {"zero", "default", "just-past"}
XmlForms == {"version-encoding", "version-encoding-standalone", "spaced", "newline", "tab"}
XmlLead == {"none", "ws", "bom"}

HtmlDocs(L) == [kind : HtmlKinds, label : L, quote : Quotes, order : Orders, extra : Extras, tcase : Cases,
                spacing : Spacing, selfclose : BOOLEAN, prologue : Prologues, bom : BomsH, lim : LimitRel]
XmlDocs(L) == [kind : {"xml"}, label : L, quote : {"dq", "sq"}, form : XmlForms, lead : XmlLead, lim : LimitRel]

\* irrelevant combinations are collapsed so that each document is enumerated once
HtmlCanon(d) == /\ (d.kind = "meta-charset" => d.order = "equiv-first")
                /\ (d.extra = "dup-charset-after" => d.kind = "meta-charset")
                /\ (d.quote = "none" => d.kind = "meta-charset")       \* the content value contains ';' and spaces: always quoted
XmlCanon(d) == d.lead = "bom" => d.label.low = "utf-8"

StartsWithUtf16(low) == low \in {"utf-16", "utf-16le", "utf-16be"}
Expected(d) ==
    IF d.kind = "xml" THEN d.label.low
    ELSE IF d.bom = "utf-8" THEN "utf-8"
    ELSE IF StartsWithUtf16(d.label.low) THEN "utf-8"
    ELSE d.label.low
=============================================================================
