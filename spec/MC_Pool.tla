------------------------------ MODULE MC_Pool ------------------------------
EXTENDS Pool, Json
Pal == {"geo", "har", "abortdeep", "path200", "truncjson", "scalar", "empty", "csvabort", "csvok", "huge", "ndjson", "binary", "readerr", "lim0", "limD", "plain", "blanklines", "wsjson", "csvtsvabort", "onerec", "lim64", "rdtail", "rdgeo"}
Dump == Len(hist) = MaxCalls => PrintT(ToJson([h |-> hist]))
=============================================================================
