SPECIFICATION TSpec
CONSTANTS
  Procs <- P8
  MaxOps = 0
  Exts <- E12
  AccMenu <- None
  AliasMenu <- None
  LimitMenu <- None
  LookupExtra <- None
  DupAt = 0
  Hist = FALSE
INVARIANTS TRWExcl
POSTCONDITION Accepted
CHECK_DEADLOCK FALSE
