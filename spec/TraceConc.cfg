SPECIFICATION TSpec
CONSTANTS
  Procs <- P8
  MaxOps = 0
  Exts <- E12
  AccMenu <- None
  AliasMenu <- None
  LimitMenu <- None
  LookupExtra <- None
  DupLast = FALSE
  Hist = FALSE
INVARIANTS TRWExcl
POSTCONDITION Accepted
CHECK_DEADLOCK FALSE
