SPECIFICATION Spec
CONSTANTS
  Chunks <- NestChunks
  MaxLen = 200
  MaxChunks = 10
  Cap = 2
  QTypes <- OnlyJson
INVARIANTS C16Depth LvlBound RejectedBeyondCap PathCap PathBounded IbIsCursor C08Whole C08Trunc C09Whole C09Trunc
CHECK_DEADLOCK FALSE
