------------------------------- MODULE MC_Zip -------------------------------
EXTENDS ZipWalk, Json
CONSTANTS Names, Sizes, Extras, MaxEntries,
          Focus     \* TRUE: OOXML packages of 6-7 entries, the marker part late (the "first six entries" boundary)
VARIABLES a, d      \* archive (sequence of entries), descriptor length used by the writer (0 or 16)

NamesQuick == {"ct", "rels", "docprops", "word", "xl", "ppt", "manifest", "android", "mimetype", "nm_Word", "u1", "u12", "u40"}
NamesBig == {"ct", "docprops", "word", "u12"}     \* with Sizes = {5, 70000}: bodies larger than any plausible look-ahead window
NamesAll == {"ct", "rels", "docprops", "customxml", "trash", "word", "xl", "ppt", "manifest", "android", "dex", "mimetype",
             "nm_word", "nm_Word", "nm_xl", "nm_manifest", "nm_mimetypes", "u1", "u12", "u40", "u200"}

Init == a = <<>> /\ d \in {0, 16}
Bookkeeping == {"rels", "docprops", "customxml", "u12"}
FocusNames(pos) == IF pos = 1 THEN {"ct"} ELSE IF pos <= 5 THEN Bookkeeping ELSE IF pos = 6 THEN {"word", "xl", "ppt", "u12"} ELSE {"word", "u12"}
Next == /\ Len(a) < MaxEntries
        /\ \E n \in (IF Focus THEN FocusNames(Len(a) + 1) ELSE Names), c \in Sizes, x \in Extras :
               a' = Append(a, [name |-> n, extra |-> x, csize |-> c, desc |-> d])
        /\ UNCHANGED d
Spec == Init /\ [][Next]_<<a, d>>

\* archives whose first entry is the stored `mimetype` file are handled by the offset-30
\* prefix signatures (ODF / EPUB), not by zipContains: enumerated separately by the harness
InScope == a # <<>> /\ a[1].name # "mimetype"
DesignC19 == InScope => ModelClass(a) \in Allowed(a)
DesignC01 == InScope => InBounds(a)
\* simulation runs (MaxEntries > 4) print full-length archives only: TLC evaluates invariants on
\* every generated successor, not only on the one it follows
Dump == (InScope /\ (IF Focus THEN Len(a) >= 6 ELSE (MaxEntries <= 4 \/ Len(a) = MaxEntries))) => PrintT(ToJson([a |-> [i \in 1..Len(a) |-> <<a[i].name, a[i].csize, a[i].extra>>], d |-> d, m |-> ModelClass(a), ok |-> Allowed(a), len |-> FileLen(a)]))
=============================================================================
