SPECIFICATION Spec
CONSTANTS
  Chunks <- ByteChunks
  MaxLen = 5
  MaxChunks = 99
  Cap = 4096
  QTypes <- OnlyJson
INVARIANTS DumpInv C16Depth IbIsCursor PathBalanced PathBounded
CHECK_DEADLOCK FALSE
