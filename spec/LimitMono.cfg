SPECIFICATION Spec
CONSTANTS
  N = 3
  MaxK = 3
  MaxL = 4
  AllowBroken = FALSE
INVARIANTS C17
CHECK_DEADLOCK FALSE
