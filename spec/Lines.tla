------------------------------- MODULE Lines -------------------------------
(***************************************************************************)
(* C13: line-oriented formats (CSV / TSV / NDJSON) under truncation.       *)
(*                                                                         *)
(* Implementation-shaped (text_csv.go:27-77, text.go:196-225,300-309):     *)
(*   DropLastLine, ScanLine, the record / field splitting that sv() gets   *)
(*   from encoding/csv (LazyQuotes, Comment '#', empty lines skipped,      *)
(*   FieldsPerRecord fixed by the first record), NdJSON's per-line test    *)
(*   (a line is accepted when it is blank or a complete JSON value).       *)
(* Reference (from the statement), defined on the ABSTRACT file -- rows    *)
(*   with their field counts / line classes -- never on bytes: which lines *)
(*   are complete inside the examined header, whether the table is         *)
(*   rectangular, whether every complete line is a value.                  *)
(* An abstract file is rendered to bytes inside the specification so that  *)
(* every cut position is explored.                                         *)
(***************************************************************************)
EXTENDS Integers, Sequences, SequencesExt, FiniteSets, TLC

LF == 10  CR == 13  DQ == 34  HASH == 35  SP == 32  COMMA == 44  TAB == 9

(* ---------------- implementation-shaped ---------------- *)
\* text_csv.go:69-77
LastLF(b) == LET idx == {i \in 2..Len(b) : b[i] = LF} IN IF idx = {} THEN 0 ELSE CHOOSE i \in idx : \A j \in idx : j <= i
DropLastLine(b, limit) ==
    IF limit = 0 \/ Len(b) < limit THEN b
    ELSE IF LastLF(b) = 0 THEN b ELSE SubSeq(b, 1, LastLF(b) - 1)

\* split at LF; the piece after the last LF is a line only if it is non-empty
SplitStep(acc, c) == IF c = LF THEN [done |-> Append(acc.done, acc.cur), cur |-> <<>>] ELSE [acc EXCEPT !.cur = Append(@, c)]
SplitLines(b) == LET r == FoldLeft(SplitStep, [done |-> <<>>, cur |-> <<>>], b) IN
                 IF r.cur = <<>> THEN r.done ELSE Append(r.done, r.cur)
DropCR(ln) == IF ln # <<>> /\ ln[Len(ln)] = CR THEN SubSeq(ln, 1, Len(ln) - 1) ELSE ln
\* fields: delimiters outside double quotes
FieldStep(st, c) == IF c = DQ THEN [st EXCEPT !.q = ~st.q]
                    ELSE IF c = st.d /\ ~st.q THEN [st EXCEPT !.n = st.n + 1]
                    ELSE st
FieldCount(ln, d) == FoldLeft(FieldStep, [q |-> FALSE, n |-> 1, d |-> d], ln).n
IsRecordLine(ln) == ln # <<>> /\ ln[1] # HASH
SvAccept(h, limit, d) ==
    LET lines == [i \in 1..Len(SplitLines(DropLastLine(h, limit))) |-> DropCR(SplitLines(DropLastLine(h, limit))[i])]
        recs == SelectSeq(lines, IsRecordLine)
    IN /\ Len(recs) > 1
       /\ FieldCount(recs[1], d) > 1
       /\ \A i \in 1..Len(recs) : FieldCount(recs[i], d) = FieldCount(recs[1], d)

(* ---------------- abstract CSV files ---------------- *)
\* file = [rows, special, delim, crlf, final, ins]
\*   rows    : sequence of field counts (>= 1), one per record line
\*   special : [r, c, k] one field of kind k ("e" empty, "q" quoted, "qd" quoted containing the
\*             delimiter, "qq" quoted containing an escaped quote) or [r |-> 0]
\*   ins     : [at, k] an extra line before record `at` of kind "blank" | "comment", or [at |-> 0]
FieldBytes(k, d) == CASE k = "a" -> <<97>> [] k = "e" -> <<>> [] k = "q" -> <<DQ, 113, DQ>>
                      [] k = "qd" -> <<DQ, 97, d, 98, DQ>> [] k = "qq" -> <<DQ, 97, DQ, DQ, 98, DQ>>
RECURSIVE RowBytes(_, _, _, _)
RowBytes(f, r, c, n) ==   \* fields c..n of row r
    LET k == IF f.special.r = r /\ f.special.c = c THEN f.special.k ELSE "a" IN
    IF c > n THEN <<>>
    ELSE FieldBytes(k, f.delim) \o (IF c < n THEN <<f.delim>> ELSE <<>>) \o RowBytes(f, r, c + 1, n)
Term(f) == IF f.crlf THEN <<CR, LF>> ELSE <<LF>>
ExtraLine(f) == IF f.ins.k = "blank" THEN <<>> ELSE <<HASH, 99, f.delim, 100, f.delim, 101, f.delim, 102>>
\* physical lines: sequence of [bytes, rec (is a record), n (field count)]
RECURSIVE PhysLines(_, _)
PhysLines(f, r) ==
    IF r > Len(f.rows) THEN <<>>
    ELSE (IF f.ins.at = r THEN << [bytes |-> ExtraLine(f), rec |-> FALSE, n |-> 0] >> ELSE <<>>)
         \o << [bytes |-> RowBytes(f, r, 1, f.rows[r]), rec |-> TRUE, n |-> f.rows[r]] >>
         \o PhysLines(f, r + 1)
RECURSIVE Render(_, _, _)
Render(f, pl, i) ==
    IF i > Len(pl) THEN <<>>
    ELSE pl[i].bytes \o (IF i < Len(pl) \/ f.final THEN Term(f) ELSE <<>>) \o Render(f, pl, i + 1)
FileBytes(f) == Render(f, PhysLines(f, 1), 1)
\* offset just past the terminator of physical line i (0-based count of bytes), or the
\* file length for an unterminated last line
RECURSIVE EndOf(_, _, _)
EndOf(f, pl, i) == IF i = 0 THEN 0
                   ELSE EndOf(f, pl, i - 1) + Len(pl[i].bytes) + (IF i < Len(pl) \/ f.final THEN Len(Term(f)) ELSE 0)

(* ---------------- reference for CSV (on the abstract file) ---------------- *)
Whole(len, limit) == limit = 0 \/ len < limit
\* physical line i is complete inside the header of hl bytes examined with this limit
CompleteLine(f, pl, i, hl, limit) ==
    IF i < Len(pl) \/ f.final THEN EndOf(f, pl, i) <= hl            \* its terminator is inside the header
    ELSE Whole(hl, limit) /\ hl = EndOf(f, pl, i)                     \* unterminated last line: only when seen whole
CompleteRecs(f, hl, limit) == LET pl == PhysLines(f, 1) IN
    {i \in 1..Len(pl) : pl[i].rec /\ CompleteLine(f, pl, i, hl, limit)}
RectangularRef(f) == \A i \in 1..Len(f.rows) : f.rows[i] = f.rows[1] /\ f.rows[1] >= 2
\* positive: rectangular, >= 2 columns, cut after the second complete record line  =>  accepted
CsvMust(f, hl, limit) == RectangularRef(f) /\ Cardinality(CompleteRecs(f, hl, limit)) >= 2
\* converse: accepted  =>  all complete record lines have the same number (>= 2) of fields
CsvMay(f, hl, limit) == LET pl == PhysLines(f, 1)  cr == CompleteRecs(f, hl, limit) IN
    \A i \in cr : \A j \in cr : pl[i].n = pl[j].n /\ pl[i].n >= 2

(* ---------------- NDJSON ---------------- *)
\* line classes with the outcome of scanning the line alone (validated by JsonScan.tla):
\*   complete : the line is one complete JSON value (possibly surrounded by blanks)
\*   blank    : only spaces
\*   objarr   : the value is an object or an array
LineBytes(k) == CASE k = "obj" -> <<123, 34, 97, 34, 58, 49, 125>>          \* {"a":1}
                  [] k = "arr" -> <<91, 49, 93>>                             \* [1]
                  [] k = "num" -> <<49>>                                     \* 1
                  [] k = "str" -> <<34, 115, 34>>                            \* "s"
                  [] k = "blank" -> <<>>
                  [] k = "spaces" -> <<SP>>
                  [] k = "viable" -> <<123, 34, 97, 34, 58>>                 \* {"a":      (prefix of a value)
                  [] k = "arr2" -> <<91, 49, 44, 50, 93>>                    \* [1,2]     (a value per line AND one comma per line)
                  [] k = "closer" -> <<49, 125>>                             \* 1}        (completes "viable" on the NEXT line: still not a value per line)
                  [] k = "bad" -> <<123, 93>>                                \* {]
                  [] k = "objsp" -> <<SP, 123, 125, SP>>                     \* _{}_
LineClass(k) == [complete |-> k \in {"obj", "arr", "arr2", "num", "str", "objsp"}, blank |-> k \in {"blank", "spaces"},
                 objarr |-> k \in {"obj", "arr", "arr2", "objsp"}]
\* nd = [lines (sequence of classes), crlf, final]
NdPhys(nd) == [i \in 1..Len(nd.lines) |-> [bytes |-> LineBytes(nd.lines[i]), rec |-> TRUE, n |-> 0]]
NdBytes(nd) == Render([crlf |-> nd.crlf, final |-> nd.final], NdPhys(nd), 1)
NdComplete(nd, hl, limit) == {i \in 1..Len(nd.lines) : CompleteLine([crlf |-> nd.crlf, final |-> nd.final], NdPhys(nd), i, hl, limit)}
\* implementation-shaped acceptance (text.go:207-225): the lines of DropLastLine(header), each
\* classified by its bytes (a line that is none of the listed spellings is neither complete nor blank)
NdKindsAll == {"obj", "arr", "arr2", "num", "str", "blank", "spaces", "viable", "closer", "bad", "objsp"}
ClassOfBytes(ln) == IF \E k \in NdKindsAll : LineBytes(k) = ln
                    THEN LineClass(CHOOSE k \in NdKindsAll : LineBytes(k) = ln)
                    ELSE [complete |-> FALSE, blank |-> FALSE, objarr |-> FALSE]
NdAcceptBytes(h, limit) ==
    LET raw == SplitLines(DropLastLine(h, limit))
        cls == [i \in 1..Len(raw) |-> ClassOfBytes(DropCR(raw[i]))]
    IN /\ \A i \in 1..Len(cls) : cls[i].complete \/ cls[i].blank
       /\ Len(cls) > 1
       /\ \E i \in 1..Len(cls) : cls[i].objarr
\* reference, from the statement
NdMust(nd, hl, limit) == LET cl == NdComplete(nd, hl, limit) IN
    /\ \A i \in 1..Len(nd.lines) : LineClass(nd.lines[i]).complete           \* a value-per-line stream
    /\ Cardinality(cl) >= 2 /\ \E i \in cl : LineClass(nd.lines[i]).objarr
NdMay(nd, hl, limit) == LET cl == NdComplete(nd, hl, limit) IN
    /\ Cardinality(cl) >= 2
    /\ \A i \in cl : LineClass(nd.lines[i]).complete \/ LineClass(nd.lines[i]).blank
    /\ \E i \in cl : LineClass(nd.lines[i]).objarr
=============================================================================
