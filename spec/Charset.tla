------------------------------ MODULE Charset ------------------------------
(***************************************************************************)
(* Text / charset sniffing as functions of a byte string.                  *)
(*  Implementation-shaped (internal/charset/charset.go:56-133,              *)
(*  internal/magic/text.go:125-144):  FromBOM, the trailing-partial-rune    *)
(*  trim loop, ascii, latin, FromPlain, Text.                               *)
(*  Reference, from the statements of C07 and C11: the WHATWG binary-data   *)
(*  byte class, the UTF-8 automaton of Unicode Table 3-7, "valid apart from *)
(*  a sequence cut off at the very end", "contains a complete non-ASCII     *)
(*  character", "consists solely of ASCII text characters".                 *)
(***************************************************************************)
EXTENDS Integers, Sequences, SequencesExt, FiniteSets

(* ---------------- reference ---------------- *)
\* WHATWG binary data bytes
Bin == (0..8) \cup {11} \cup (14..26) \cup (28..31)
Boms == << [b |-> <<239, 187, 191>>, cs |-> "utf-8"],
           [b |-> <<0, 0, 254, 255>>, cs |-> "utf-32be"],
           [b |-> <<255, 254, 0, 0>>, cs |-> "utf-32le"],
           [b |-> <<254, 255>>, cs |-> "utf-16be"],
           [b |-> <<255, 254>>, cs |-> "utf-16le"] >>
HasPrefix(s, p) == Len(s) >= Len(p) /\ SubSeq(s, 1, Len(p)) = p
BomSet(s) == {i \in 1..Len(Boms) : HasPrefix(s, Boms[i].b)}
HasBOM(s) == BomSet(s) # {}
\* the charsets a mark stands for (FF FE 00 00 is both a UTF-32LE and a UTF-16LE mark)
BomCharsets(s) == {Boms[i].cs : i \in BomSet(s)}
HasBin(s) == \E i \in 1..Len(s) : s[i] \in Bin
TextRef(s) == HasBOM(s) \/ ~HasBin(s)

\* UTF-8 automaton (Unicode 15, Table 3-7).  State: need = continuation bytes still
\* expected, lo..hi = range allowed for the next one, bad = malformed so far,
\* multi = a multi-byte character has been completed.
U0 == [need |-> 0, lo |-> 128, hi |-> 191, bad |-> FALSE, multi |-> FALSE]
UStep(u, b) ==
    IF u.bad THEN u
    ELSE IF u.need > 0 THEN
         IF b >= u.lo /\ b <= u.hi
         THEN [need |-> u.need - 1, lo |-> 128, hi |-> 191, bad |-> FALSE, multi |-> u.multi \/ u.need = 1]
         ELSE [u EXCEPT !.bad = TRUE]
    ELSE IF b < 128 THEN u
    ELSE IF b >= 194 /\ b <= 223 THEN [u EXCEPT !.need = 1, !.lo = 128, !.hi = 191]
    ELSE IF b = 224 THEN [u EXCEPT !.need = 2, !.lo = 160, !.hi = 191]
    ELSE IF (b >= 225 /\ b <= 236) \/ b \in {238, 239} THEN [u EXCEPT !.need = 2, !.lo = 128, !.hi = 191]
    ELSE IF b = 237 THEN [u EXCEPT !.need = 2, !.lo = 128, !.hi = 159]
    ELSE IF b = 240 THEN [u EXCEPT !.need = 3, !.lo = 144, !.hi = 191]
    ELSE IF b >= 241 /\ b <= 243 THEN [u EXCEPT !.need = 3, !.lo = 128, !.hi = 191]
    ELSE IF b = 244 THEN [u EXCEPT !.need = 3, !.lo = 128, !.hi = 143]
    ELSE [u EXCEPT !.bad = TRUE]
URun(s) == FoldLeft(UStep, U0, s)
Utf8Valid(s) == LET u == URun(s) IN ~u.bad /\ u.need = 0
\* valid apart from a multi-byte sequence cut off at the very end
CutTailValid(s) == ~URun(s).bad
HasCompleteNonAscii(s) == LET u == URun(s) IN ~u.bad /\ u.multi
\* ASCII text characters: HT LF FF CR ESC and the printable range
AsciiText == {9, 10, 12, 13, 27} \cup (32..126)
AllAsciiText(s) == \A i \in 1..Len(s) : s[i] \in AsciiText
HasC1(s) == \E i \in 1..Len(s) : s[i] >= 128 /\ s[i] <= 159

\* C11 as a predicate on (examined bytes, reported charset) for bare text/plain results
C11Holds(s, cs) ==
    IF HasBOM(s) THEN cs \in BomCharsets(s)
    ELSE /\ cs \in {"", "utf-8", "windows-1252", "iso-8859-1"}
         /\ (cs = "utf-8" => CutTailValid(s))
         /\ ((s # <<>> /\ CutTailValid(s) /\ (AllAsciiText(s) \/ HasCompleteNonAscii(s))) => cs = "utf-8")
         /\ (cs = "windows-1252" => HasC1(s))
         /\ (cs = "iso-8859-1" => ~HasC1(s))
\* C07 as a predicate on (examined bytes, reported chain)
C07Holds(s, hasText, chainLen) == (hasText => TextRef(s)) /\ (TextRef(s) => chainLen > 1)

(* ---------------- implementation-shaped ---------------- *)
FromBOM(s) == IF BomSet(s) = {} THEN "" ELSE Boms[CHOOSE i \in BomSet(s) : \A j \in BomSet(s) : i <= j].cs

\* textChars table of charset.go:31-53 ("F" never in text, "T" plain ASCII text, "I" ISO-8859, "X" other extended)
TC(b) == IF (b >= 7 /\ b <= 13) \/ b = 27 \/ (b >= 32 /\ b <= 126) \/ b = 133 THEN "T"
         ELSE IF b >= 160 THEN "I"
         ELSE IF b >= 128 THEN "X"
         ELSE "F"

RuneStart(b) == (b \div 64) # 2          \* b & 0xC0 != 0x80
\* unicode/utf8.FullRune on the suffix p (an invalid encoding counts as a full, width-1 rune)
SizeOfLead(b) == IF b < 128 THEN 1
                 ELSE IF b >= 194 /\ b <= 223 THEN 2
                 ELSE IF b >= 224 /\ b <= 239 THEN 3
                 ELSE IF b >= 240 /\ b <= 244 THEN 4
                 ELSE 1                    \* invalid lead: width-1 error rune
SecondLo(b) == IF b = 224 THEN 160 ELSE IF b = 240 THEN 144 ELSE 128
SecondHi(b) == IF b = 237 THEN 159 ELSE IF b = 244 THEN 143 ELSE 191
FullRune(p) ==
    IF p = <<>> THEN FALSE
    ELSE IF Len(p) >= SizeOfLead(p[1]) THEN TRUE
    ELSE IF Len(p) > 1 /\ (p[2] < SecondLo(p[1]) \/ p[2] > SecondHi(p[1])) THEN TRUE
    ELSE IF Len(p) > 2 /\ (p[3] < 128 \/ p[3] > 191) THEN TRUE
    ELSE FALSE

\* charset.go:77-90: look at the last three bytes for the start of a rune; drop an
\* INCOMPLETE final rune (positions are 1-based here)
RECURSIVE TrimAt(_, _)
TrimAt(s, i) ==
    IF i < 1 \/ i <= Len(s) - 3 THEN s
    ELSE IF s[i] < 128 THEN s
    ELSE IF RuneStart(s[i]) THEN (IF FullRune(SubSeq(s, i, Len(s))) THEN s ELSE SubSeq(s, 1, i - 1))
    ELSE TrimAt(s, i - 1)
Trim(s) == TrimAt(s, Len(s))

HasHigh(s) == \E i \in 1..Len(s) : s[i] >= 128
Ascii(s) == \A i \in 1..Len(s) : s[i] < 128 /\ TC(s[i]) = "T"
Latin(s) == IF \E i \in 1..Len(s) : TC(s[i]) \notin {"T", "I"} THEN ""
            ELSE IF HasC1(s) THEN "windows-1252" ELSE "iso-8859-1"
FromPlain(s) ==
    IF s = <<>> THEN ""
    ELSE IF FromBOM(s) # "" THEN FromBOM(s)
    ELSE IF HasHigh(Trim(s)) /\ Utf8Valid(Trim(s)) THEN "utf-8"
    ELSE IF Ascii(s) THEN "utf-8"
    ELSE Latin(s)
\* text.go:129-144
Text(s) == FromBOM(s) # "" \/ ~(\E i \in 1..Len(s) : s[i] <= 8 \/ s[i] = 11 \/ (14 <= s[i] /\ s[i] <= 26) \/ (28 <= s[i] /\ s[i] <= 31))
=============================================================================
