SPECIFICATION Spec
CONSTANTS
  Procs <- P2
  MaxOps = 2
  Exts <- E2
  AccMenu <- AccOne
  AliasMenu <- AlNone
  LimitMenu <- Lim1
  LookupExtra <- NoExtra
  DupAt = 0
  Hist = FALSE
INVARIANTS RWExcl ReadersCounted WriterCounted PublishedComplete Linearizable LookupLinearizable
PROPERTIES TreeStableUnderRLock
VIEW View
CHECK_DEADLOCK FALSE
