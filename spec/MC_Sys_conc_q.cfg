SPECIFICATION Spec
CONSTANTS
  Procs <- P2
  MaxOps = 2
  Exts <- E2
  AccMenu <- AccTwo
  AliasMenu <- AlNone
  LimitMenu <- Lim01
  LookupExtra <- NoExtra
  DupLast = FALSE
  Hist = FALSE
INVARIANTS RWExcl ReadersCounted WriterCounted PublishedComplete Linearizable LookupLinearizable
PROPERTIES TreeStableUnderRLock
VIEW View
CHECK_DEADLOCK FALSE
