----------------------------- MODULE MC_Charset -----------------------------
(* Exhaustive enumeration of byte strings over a class alphabet; design invariants of    *)
(* Charset.tla and conformance vectors for charset.FromPlain / magic.Text / Detect.      *)
EXTENDS Charset, TLC, Json
CONSTANTS Alphabet, MaxLen
VARIABLE s

\* C11: ASCII, ESC, DEL, every UTF-8 lead / continuation class boundary, C1 range, 0xFF
A11 == {97, 27, 127, 128, 133, 143, 144, 159, 160, 189, 191, 192, 194, 223, 224, 225, 237, 238, 239, 240, 241, 244, 245, 255, 254, 0}   \* 254, 0: so that every byte-order mark (and nothing but the mark) is spelled
\* C07: binary-data bytes and their non-binary neighbours, BOM bytes
A07 == {97, 0, 8, 9, 10, 11, 12, 14, 26, 27, 28, 31, 32, 239, 187, 191, 254, 255}

Init == s = <<>>
Next == Len(s) < MaxLen /\ \E c \in Alphabet : s' = Append(s, c)
Spec == Init /\ [][Next]_s

\* design invariants: the implementation-shaped functions satisfy the statements
DesignC11 == ~HasBin(s) => C11Holds(s, FromPlain(s))
DesignC07 == Text(s) = TextRef(s)
Vec == [i |-> s, cs |-> FromPlain(s), txt |-> TextRef(s), bom |-> BomCharsets(s),
        ctv |-> CutTailValid(s), hcna |-> HasCompleteNonAscii(s), aat |-> AllAsciiText(s), c1 |-> HasC1(s), bin |-> HasBin(s), uv |-> Utf8Valid(s)]
DumpInv == PrintT(ToJson(Vec))
=============================================================================
