----------------------------- MODULE MediaType -----------------------------
(***************************************************************************)
(* C15: Is / EqualsAny / Lookup over the registry of the running package.  *)
(* The registry (type string, aliases, in depth-first order) is dumped by  *)
(* the harness and read here; a *decoration* is a meaning-preserving       *)
(* rewriting of a media-type string (letter case of type/subtype, leading  *)
(* and trailing whitespace, a well-formed parameter list).  By the         *)
(* statement, decorations never change the answer, so the expected answer  *)
(* of every query is determined by the undecorated names alone.            *)
(***************************************************************************)
EXTENDS Integers, Sequences, FiniteSets, TLC, Json, IOUtils

Registry == JsonDeserialize(IOEnv.REGISTRY)       \* sequence of [mime, aliases, parent] in DFS pre-order
N == Len(Registry)
NamesOf(i) == {Registry[i].mime} \cup {Registry[i].aliases[k] : k \in 1..Len(Registry[i].aliases)}
AllNames == UNION {NamesOf(i) : i \in 1..N}

Cases == {"asis", "upper", "mixed"}
Ws == {"none", "sp", "tab", "both"}
Params == {"none", "charset", "quoted", "two", "rfc2231", "wscharset", "tabparam", "long"}    \* long: a 300-byte parameter value
Decos == [c : Cases, l : Ws, t : Ws, p : Params]
Plain == [c |-> "asis", l |-> "none", t |-> "none", p |-> "none"]
\* a small covering set of decorations for the quadratic EqualsAny queries
FewDecos == {Plain, [c |-> "upper", l |-> "sp", t |-> "none", p |-> "charset"], [c |-> "mixed", l |-> "tab", t |-> "both", p |-> "quoted"],
             [c |-> "asis", l |-> "both", t |-> "sp", p |-> "rfc2231"], [c |-> "upper", l |-> "none", t |-> "tab", p |-> "two"],
             [c |-> "asis", l |-> "none", t |-> "none", p |-> "wscharset"], [c |-> "mixed", l |-> "sp", t |-> "none", p |-> "tabparam"],
             [c |-> "asis", l |-> "none", t |-> "sp", p |-> "long"]}

\* expected answers, from the statement
IsExpected(i, name) == name \in NamesOf(i)
LookupExpected(name) == LET hit == {i \in 1..N : name \in NamesOf(i)} IN
                        IF hit = {} THEN 0 ELSE CHOOSE i \in hit : \A j \in hit : i <= j

Neighbours(i) == {j \in 1..N : j # i /\ (j = i + 1 \/ j = i - 1 \/ j = Registry[i].parent
                                         \/ (Registry[j].parent = Registry[i].parent /\ j < i + 4 /\ j > i - 4))}

CONSTANT Full      \* TRUE: all decorations for Is; FALSE: the covering set
VARIABLE q
IsD == IF Full THEN Decos ELSE FewDecos \cup {[c |-> "mixed", l |-> "sp", t |-> "sp", p |-> "two"]}
Queries ==
    UNION {{[op |-> "is", node |-> i, name |-> n, dl |-> d, dr |-> Plain, exp |-> TRUE] : n \in NamesOf(i), d \in IsD} : i \in 1..N}
    \cup UNION {UNION {{[op |-> "is", node |-> i, name |-> n, dl |-> d, dr |-> Plain, exp |-> IsExpected(i, n)] : n \in NamesOf(j), d \in FewDecos}
                        : j \in Neighbours(i)} : i \in 1..N}
    \cup {[op |-> "eq", node |-> 0, name |-> n, dl |-> d1, dr |-> d2, exp |-> TRUE] : n \in AllNames, d1 \in FewDecos, d2 \in FewDecos}
    \cup {[op |-> "lookup", node |-> LookupExpected(n), name |-> n, dl |-> Plain, dr |-> Plain, exp |-> TRUE] : n \in AllNames}
    \* late registration: a name registered with Extend (as the type or as an alias, under node i), looked up
    \* before the registration (exp = TRUE: it was probed while still unknown) and after it: "every registered
    \* type and alias resolves through Lookup" also holds for names that were once unknown
    \cup {[op |-> "late", node |-> i, name |-> n, dl |-> Plain, dr |-> Plain, exp |-> pr]
            : i \in {1, 2, N}, n \in {"verif/late-type", "verif/late-alias"}, pr \in BOOLEAN}
Init == q \in Queries
Next == UNCHANGED q
Spec == Init /\ [][Next]_q
\* design sanity: every name resolves, and resolves to a node that carries it
Resolves == q.op = "lookup" => (q.node > 0 /\ q.name \in NamesOf(q.node))
Dump == PrintT(ToJson(q))
=============================================================================
