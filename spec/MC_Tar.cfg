SPECIFICATION Spec
INVARIANTS Dump
CHECK_DEADLOCK FALSE
