SPECIFICATION Spec
CONSTANTS
  Mode = "content"
  LabelSet <- QuickLabels
INVARIANTS TagInv ContentInv DumpDocs
CHECK_DEADLOCK FALSE
