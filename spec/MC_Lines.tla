------------------------------ MODULE MC_Lines ------------------------------
EXTENDS Lines, Json
CONSTANTS Mode,      \* "csv" | "nd"
          MaxRows, SpecialKinds, InsKinds
VARIABLES f, limit, stage

RowSeqs(n) == UNION {[1..k -> 1..3] : k \in 2..n}
Specials(rows) == {[r |-> 0, c |-> 0, k |-> "a"]} \cup {[r |-> r, c |-> c, k |-> k] : r \in 1..Len(rows), c \in 1..3, k \in SpecialKinds}
Inserts(rows) == {[at |-> 0, k |-> "blank"]} \cup {[at |-> a, k |-> k] : a \in 2..Len(rows), k \in InsKinds} \cup {[at |-> 1, k |-> "comment"] : x \in (InsKinds \cap {"comment"})}
CsvFilesOf(rows) == {[rows |-> rows, special |-> sp, delim |-> d, crlf |-> cr, final |-> fin, ins |-> ins] :
                      sp \in {s \in Specials(rows) : s.r = 0 \/ (s.c <= rows[s.r] /\ ~(s.k = "e" /\ rows[s.r] = 1))},
                      d \in {COMMA, TAB}, cr \in BOOLEAN, fin \in BOOLEAN, ins \in Inserts(rows)}
NdKinds == {"obj", "arr", "arr2", "num", "str", "blank", "spaces", "viable", "closer", "bad", "objsp"}
NdLineSeqs == {s \in UNION {[1..k -> NdKinds] : k \in 2..MaxRows} : s[1] \notin {"blank"}}
\* an unterminated empty last line is not a line: such files are the same bytes as a shorter file
NdFilesOf(ls) == {[lines |-> ls, crlf |-> cr, final |-> fin] : cr \in BOOLEAN, fin \in {x \in BOOLEAN : x \/ ls[Len(ls)] # "blank"}}

Bytes == IF Mode = "csv" THEN FileBytes(f) ELSE NdBytes(f)
Header == IF limit > 0 /\ Len(Bytes) > limit THEN SubSeq(Bytes, 1, limit) ELSE Bytes

\* staged enumeration (so that TLC's workers share the work): 0 pick the row shape, 1 pick the
\* remaining choices, 2 step through every limit 0 (unlimited), 1 .. len+1
Init == stage = 0 /\ f = <<>> /\ limit = 0
Next == \/ /\ stage = 0 /\ f' \in (IF Mode = "csv" THEN RowSeqs(MaxRows) ELSE NdLineSeqs) /\ stage' = 1 /\ UNCHANGED limit
        \/ /\ stage = 1 /\ f' \in (IF Mode = "csv" THEN CsvFilesOf(f) ELSE NdFilesOf(f)) /\ stage' = 2 /\ UNCHANGED limit
        \/ /\ stage = 2 /\ limit <= Len(Bytes) /\ limit' = limit + 1 /\ UNCHANGED <<f, stage>>
Spec == Init /\ [][Next]_<<f, limit, stage>>

HL == Len(Header)
CsvAcc == SvAccept(Header, limit, f.delim)
OtherDelim == IF f.delim = COMMA THEN TAB ELSE COMMA
DesignCsv == (Mode = "csv" /\ stage = 2) => /\ (CsvMust(f, HL, limit) => CsvAcc)
                             /\ (CsvAcc => CsvMay(f, HL, limit))
DesignNd == (Mode = "nd" /\ stage = 2) => /\ (NdMust(f, HL, limit) => NdAcceptBytes(Header, limit))
                           /\ (NdAcceptBytes(Header, limit) => NdMay(f, HL, limit))
Vec == IF Mode = "csv"
       THEN [k |-> IF f.delim = COMMA THEN "csv" ELSE "tsv", b |-> Bytes, l |-> limit, acc |-> CsvAcc,
             must |-> CsvMust(f, HL, limit), may |-> CsvMay(f, HL, limit), quoted |-> f.special.k \in {"q", "qd", "qq"}]
       ELSE [k |-> "nd", b |-> Bytes, l |-> limit, acc |-> NdAcceptBytes(Header, limit),
             must |-> NdMust(f, HL, limit), may |-> NdMay(f, HL, limit), quoted |-> FALSE]
Dump == stage = 2 => PrintT(ToJson(Vec))
=============================================================================
