SPECIFICATION Spec
CONSTANTS
  LenL = 5
  LenN = 35
  LenPad = 236
  Window = 512
  MaxLen = 6
  Family = "vtt"
INVARIANTS DesignXml Dump
CHECK_DEADLOCK FALSE
