SPECIFICATION Spec
CONSTANTS
  Procs <- P2
  MaxOps = 2
  Exts <- E2
  AccMenu <- AccSome
  AliasMenu <- AlTwo
  LimitMenu <- Lim01
  LookupExtra <- NoExtra
  DupAt = 0
  Hist = FALSE
INVARIANTS RWExcl ReadersCounted WriterCounted PublishedComplete Linearizable LookupLinearizable
PROPERTIES TreeStableUnderRLock
VIEW View
CHECK_DEADLOCK FALSE
