------------------------------ MODULE TraceApi ------------------------------
(***************************************************************************)
(* C01 on observations: one record per (input, cut length):                *)
(*  {"ev":"cut","sample":s,"n":len,"calls":K,"returned":R,"nonnil":b,      *)
(*   "nonempty":b,"panic":""}                                              *)
(* calls = entry-point calls and direct detector calls made on this header *)
(* (several limits each); returned = those that came back.  Every call     *)
(* must return, with a non-nil value whose String() is non-empty.          *)
(***************************************************************************)
EXTENDS Integers, Sequences, TLC, Json, IOUtils
Log == ndJsonDeserialize(IOEnv.TRACE)
VARIABLE l
E == Log[l]
Check(name, what, cond) == IF cond THEN TRUE ELSE PrintT(<<"VIOLATION", name, l, what>>)
Init == l = 1 /\ TLCSet(42, 1)
Next == /\ l <= Len(Log)
        /\ Check("C01", "a call did not return (panic or hang)", E.returned = E.calls)
        /\ Check("C01", "nil or empty result", E.nonnil /\ E.nonempty)
        /\ l' = l + 1 /\ TLCSet(42, l + 1)
Spec == Init /\ [][Next]_l
Accepted == TLCGet(42) = Len(Log) + 1
=============================================================================
