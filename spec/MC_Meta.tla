------------------------------ MODULE MC_Meta ------------------------------
EXTENDS MetaPrescan, Json
CONSTANTS Mode,      \* "tags" | "content" | "docs"
          LabelSet   \* Labels or QuickLabels
VARIABLE d

AttrMenu == { [k |-> "charset", v |-> "l1"], [k |-> "charset", v |-> "utf-16le"],
              [k |-> "http-equiv", v |-> "content-type"], [k |-> "http-equiv", v |-> "other"],
              [k |-> "content", v |-> "l2"], [k |-> "content", v |-> "utf-16"], [k |-> "content", v |-> ""],
              [k |-> "name", v |-> "x"] }
RECURSIVE SeqsUpTo(_, _)
SeqsUpTo(S, n) == IF n = 0 THEN {<<>>} ELSE LET prev == SeqsUpTo(S, n - 1) IN prev \cup {Append(p, x) : p \in prev, x \in S}

Pres == { <<>>, <<"x">>, <<"x", ";", "sp">>, <<"CS", "sp", "x", ";">>, <<"CS", ";">>, <<"x", "x", "sp">> }
Wss == { <<>>, <<"sp">>, <<"sp", "sp">> }
Lbls == { <<"L">>, <<"L", "L">>, <<"L", "L", "L">> }
Posts == { <<>>, <<";">>, <<"sp", "x">>, <<";", "x">>, <<"sp">> }
ContentCases == [pre : Pres, w1 : Wss, w2 : Wss, q : {"dq", "sq", "none"}, lbl : Lbls, post : Posts]
Render(c) == c.pre \o <<"CS">> \o c.w1 \o <<"=">> \o c.w2
             \o (IF c.q = "none" THEN c.lbl ELSE <<c.q>> \o c.lbl \o <<c.q>>) \o c.post

HClasses == {"tok", "UP", "dq", "sq", "bs", "semi", "eq", "comma", "sp", "tab", "cr", "lf", "esc", "ff", "del", "pct",
             "star", "u8", "cont", "xff", "paren", "gt", "slash", "colon", "lt", "at", "qm", "lbr", "rbr", "inj", "longu8", "longtok"}
HostileDocs(n) == [kind : {"hostile"}, syn : {"meta-dq", "meta-sq", "meta-none", "pragma-dq", "pragma-inner-sq", "xml-dq", "xml-sq", "xml-none"},
                   lbl : SeqsUpTo(HClasses, n) \ {<<>>}, bom : {"none", "utf-8"}, lim : {"default", "cut-inside"}]
Init == CASE Mode = "hostile2" -> d \in HostileDocs(2)
          [] Mode = "hostile3" -> d \in HostileDocs(3)
          [] Mode = "tags" -> d \in SeqsUpTo(AttrMenu, 4)
          [] Mode = "content" -> d \in ContentCases
          [] Mode = "docs" -> d \in {x \in HtmlDocs(LabelSet) : HtmlCanon(x)} \cup {x \in XmlDocs(LabelSet) : XmlCanon(x)}
Next == UNCHANGED d
Spec == Init /\ [][Next]_d

TagInv == Mode = "tags" => TagAgrees(d)
ContentInv == Mode = "content" => FromMetaElement(Render(d)) = <<"label", d.lbl>>
DumpDocs == CASE Mode = "docs" -> PrintT(ToJson([d |-> d, exp |-> Expected(d)]))
              [] Mode \in {"hostile2", "hostile3"} -> PrintT(ToJson([d |-> d, exp |-> "*"]))
              [] Mode = "tags" -> PrintT(ToJson([d |-> [kind |-> "tags", attrs |-> d, single |-> (TagRef(d) # "?")], exp |-> MetaTag(d)]))
              [] Mode = "content" -> PrintT(ToJson([d |-> [kind |-> "content", toks |-> Render(d), lbl |-> d.lbl], exp |-> "label"]))
              [] OTHER -> TRUE
=============================================================================
