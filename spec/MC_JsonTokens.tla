---------------------------- MODULE MC_JsonTokens ----------------------------
(* Exhaustive instances of JsonScan over token chunks with the REAL query keys, so that *)
(* the sub-type queries (C10) and the key-path stack are exercised end to end.          *)
EXTENDS JsonScan, Json

Q(s) == <<QUOTE>> \o s \o <<QUOTE>>
K(s) == Q(s) \o <<COLON>>
Feature == <<70,101,97,116,117,114,101>>
TokChunks == { <<LBRACE>>, <<RBRACE>>, <<LBRACK>>, <<RBRACK>>, <<COMMA>>, <<49>>,
               <<LBRACK, 49, RBRACK>>,                                  \* [1]
               K(GeoKey), Q(Feature),                                   \* "type": "Feature"
               K(HarKey), K(GltfSub),                                   \* "log": "version":
               K(GltfKey), Q(<<50,46,48>>) }                            \* "asset": "2.0"
AllQ == {"json", "geo", "har", "gltf"}

DumpInv == Terminal => PrintT(ToJson(Vec))
=============================================================================
