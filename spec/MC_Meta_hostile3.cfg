SPECIFICATION Spec
CONSTANTS
  Mode = "hostile3"
  LabelSet <- QuickLabels
INVARIANTS TagInv ContentInv DumpDocs
CHECK_DEADLOCK FALSE
