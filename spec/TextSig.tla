------------------------------ MODULE TextSig ------------------------------
(***************************************************************************)
(* The prefix-style text signatures of internal/magic/magic.go (markup,    *)
(* ciPrefix, shebang) as functions of a byte string, implementation-shaped *)
(* with the in-bounds obligation of every index expression (C01), and a    *)
(* reference reading of what each signature means.  Not named by a listed  *)
(* property on their own: they are the detectors below text/plain that     *)
(* C03 / C07 / C12 rely on, so disagreement with the real detectors is     *)
(* reported as drift; an out-of-bounds obligation would be a C01 finding.  *)
(*   markup   magic.go:110-153  optional UTF-8 mark, leading whitespace,   *)
(*            case-insensitive tag name, then ' ' or '>'                   *)
(*   ciPrefix magic.go:44-73    case-insensitive prefix, one more byte     *)
(*   shebang  magic.go:176-233  first line "#!" + interpreter, blanks       *)
(*            trimmed on both sides                                        *)
(***************************************************************************)
EXTENDS Integers, Sequences, FiniteSets

IsWS(b) == b \in {9, 10, 12, 13, 32}
Upper(b) == IF b >= 97 /\ b <= 122 THEN b - 32 ELSE b
\* db &= 0xDF is applied only where the signature byte is an upper-case letter
FoldFor(sb, b) == IF sb >= 65 /\ sb <= 90 THEN (IF (b \div 32) % 2 = 1 THEN b - 32 ELSE b) ELSE b
RECURSIVE TrimLWS(_)
TrimLWS(s) == IF s # <<>> /\ IsWS(s[1]) THEN TrimLWS(Tail(s)) ELSE s
\* trimRWS keeps index 0 even if it is blank (lastNonWS > 0)
RECURSIVE TrimRWS(_)
TrimRWS(s) == IF Len(s) > 1 /\ IsWS(s[Len(s)]) THEN TrimRWS(SubSeq(s, 1, Len(s) - 1)) ELSE s
FirstLine(s) == LET nl == {i \in 1..Len(s) : s[i] = 10} IN
                IF nl = {} THEN s ELSE SubSeq(s, 1, (CHOOSE i \in nl : \A j \in nl : i <= j) - 1)
HasPrefix(s, p) == Len(s) >= Len(p) /\ SubSeq(s, 1, Len(p)) = p
Bom == <<239, 187, 191>>

\* ---- markupCheck (sig is upper-case ASCII), with the bounds of raw[i] and raw[len(sig)]
MarkupCheck(sig, raw) ==
    IF Len(raw) < Len(sig) + 1 THEN [ok |-> FALSE, inb |-> TRUE]
    ELSE [ok |-> /\ \A i \in 1..Len(sig) : FoldFor(sig[i], raw[i]) = sig[i]
                 /\ raw[Len(sig) + 1] \in {32, 62},
          inb |-> Len(sig) + 1 <= Len(raw)]
Markup(sigs, raw0) ==
    LET raw == IF HasPrefix(raw0, Bom) THEN TrimLWS(SubSeq(raw0, 4, Len(raw0))) ELSE TrimLWS(raw0) IN
    IF raw = <<>> THEN [ok |-> FALSE, inb |-> TRUE]
    ELSE [ok |-> \E s \in sigs : MarkupCheck(s, raw).ok, inb |-> \A s \in sigs : MarkupCheck(s, raw).inb]
\* reference: after an optional mark and blanks the document opens one of the tags, in any letter
\* case, and the tag name ends there (space or '>')
MarkupRef(sigs, raw0) ==
    \E s \in sigs : \E k \in 0..Len(raw0) :
        /\ \/ \A i \in 1..k : IsWS(raw0[i])
           \/ (k >= 3 /\ HasPrefix(raw0, Bom) /\ \A i \in 4..k : IsWS(raw0[i]))
        /\ Len(raw0) >= k + Len(s) + 1
        /\ (k < Len(raw0) => ~IsWS(raw0[k + 1]))
        /\ \A i \in 1..Len(s) : Upper(raw0[k + i]) = s[i] \/ raw0[k + i] = s[i]
        /\ raw0[k + Len(s) + 1] \in {32, 62}

\* ---- ciCheck
CiCheck(sig, raw) ==
    IF Len(raw) < Len(sig) + 1 THEN [ok |-> FALSE, inb |-> TRUE]
    ELSE [ok |-> \A i \in 1..Len(sig) : FoldFor(sig[i], raw[i]) = sig[i], inb |-> Len(sig) <= Len(raw)]

\* ---- shebangCheck on the first line
ShebangCheck(sig, raw0) ==
    LET raw == FirstLine(raw0) IN
    IF Len(raw) < Len(sig) + 2 THEN [ok |-> FALSE, inb |-> TRUE]
    ELSE IF raw[1] # 35 \/ raw[2] # 33 THEN [ok |-> FALSE, inb |-> 2 <= Len(raw)]
    ELSE [ok |-> TrimLWS(TrimRWS(SubSeq(raw, 3, Len(raw)))) = sig, inb |-> 2 <= Len(raw)]
\* reference: "#!", blanks, exactly the interpreter, blanks, end of line
ShebangRef(sig, raw0) ==
    LET ln == FirstLine(raw0) IN
    /\ Len(ln) >= 2 + Len(sig) /\ ln[1] = 35 /\ ln[2] = 33
    /\ \E a \in 0..(Len(ln) - 2 - Len(sig)) :
          /\ \A i \in 3..(2 + a) : IsWS(ln[i])
          /\ SubSeq(ln, 3 + a, 2 + a + Len(sig)) = sig
          /\ \A i \in (3 + a + Len(sig))..Len(ln) : IsWS(ln[i])
=============================================================================
