SPECIFICATION Spec
CONSTANTS
  Procs <- P3
  MaxOps = 2
  Exts <- E3
  AccMenu <- AccAll
  AliasMenu <- AlSome
  LimitMenu <- Lim01
  LookupExtra <- Missing
  DupAt = 99
  Hist = TRUE
INVARIANTS DumpHist RWExcl Linearizable LookupLinearizable
CHECK_DEADLOCK FALSE
