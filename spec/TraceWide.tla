----------------------------- MODULE TraceWide -----------------------------
(***************************************************************************)
(* C08 / C09 on WIDE documents described in run-length form (the flat      *)
(* counterpart of TraceBomb): hundreds to hundreds of thousands of         *)
(* elements, with the only damage, if any, AFTER all of them.  A scanner   *)
(* that samples (stops validating after so many elements, bytes or lines)  *)
(* agrees with a full one on every small document.                         *)
(*   {"ev":"wide","shape":s,"n":N,"tail":t,"limit":L,"entry":e,"cls":c}    *)
(*   shape   opener  unit (N times)   tails                                *)
(*   arr     [       1,               ok 1]   dcomma ,]  nocomma 1 1]  open 1 *)
(*   objs    [       {"a":1},         ok {}]  dcomma ,]  nocomma {} {}] open {} *)
(*   members {       "k":1,           ok "z":1} dcomma ,} nocomma "y":1 "z":1} open "z":1 *)
(*                                    geo "type":"Feature"}   gltf "asset":{"version":"2.0"}} *)
(* (a SINGLE trailing comma before the closer is a leniency C09 tolerates, *)
(* so the damaged tails are a doubled comma and a missing comma)           *)
(* Whole documents (limit 0 or > length): ok must be accepted (C08), the   *)
(* others rejected (C09).  limit = length (everything visible, truncated   *)
(* mode): ok and open are prefixes of valid documents, dcomma and nocomma  *)
(* are not.                                                                *)
(* A cut inside the repeated part: always a valid prefix.                  *)
(***************************************************************************)
EXTENDS Integers, Sequences, TLC, Json, IOUtils
Trace == ndJsonDeserialize(IOEnv.TRACE)
VARIABLE l
UnitLen(s) == CASE s = "arr" -> 2 [] s = "objs" -> 8 [] s = "members" -> 6
TailLen(s, t) ==
    CASE s = "arr"     -> (CASE t = "ok" -> 2 [] t = "dcomma" -> 2 [] t = "nocomma" -> 4 [] t = "open" -> 1)
      [] s = "objs"    -> (CASE t = "ok" -> 3 [] t = "dcomma" -> 2 [] t = "nocomma" -> 6 [] t = "open" -> 2)
      [] s = "members" -> (CASE t = "ok" -> 6 [] t = "dcomma" -> 2 [] t = "nocomma" -> 12 [] t = "open" -> 5 [] t = "geo" -> 17 [] t = "gltf" -> 26)
Total(r) == 1 + UnitLen(r.shape) * r.n + TailLen(r.shape, r.tail)
Whole(r) == r.limit = 0 \/ r.limit > Total(r)
AllVisible(r) == r.limit = Total(r)
CutInRun(r) == r.limit > 1 /\ r.limit <= 1 + UnitLen(r.shape) * r.n
Check(name, what, cond) == IF cond THEN TRUE ELSE PrintT(<<"VIOLATION", name, l, what>>)
Init == l = 1 /\ TLCSet(42, 1)
Consume == /\ l <= Len(Trace)
           /\ LET r == Trace[l] IN
                /\ Check("C08", "well-formed wide document examined in full not reported as JSON", (Whole(r) /\ r.tail \in {"ok", "geo", "gltf"}) => r.cls # "")
                /\ Check("C08", "prefix of a well-formed wide document not reported as JSON", (CutInRun(r) \/ (AllVisible(r) /\ r.tail \in {"ok", "open", "geo", "gltf"})) => r.cls # "")
                \* C10: a deciding member after any number of siblings, inside the examined header
                /\ Check("C10", "deciding member after many siblings not honoured", ((Whole(r) \/ AllVisible(r)) /\ r.tail \in {"geo", "gltf"}) => r.cls = r.tail)
                /\ Check("C10", "sub-type reported without a deciding member", r.tail \notin {"geo", "gltf"} => r.cls \in {"", "json"})
                /\ Check("C09", "wide document damaged after its last element reported as JSON (whole)", (Whole(r) /\ r.tail \in {"dcomma", "nocomma", "open"}) => r.cls = "")
                /\ Check("C09", "wide document damaged after its last element reported as JSON (all bytes visible)", (AllVisible(r) /\ r.tail \in {"dcomma", "nocomma"}) => r.cls = "")
           /\ l' = l + 1 /\ TLCSet(42, l + 1)
Spec == Init /\ [][Consume]_l
Accepted == TLCGet(42) = Len(Trace) + 1
=============================================================================
