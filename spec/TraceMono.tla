----------------------------- MODULE TraceMono -----------------------------
(***************************************************************************)
(* C17 on observations: one record per (file, tail):                       *)
(*   {"ev":"mono","sample":s,"ls":[L...],"nt":[0/1...],"kinds":[...]}     *)
(* ls are read limits in increasing order of header length (0 = unlimited  *)
(* last); nt[i] = 1 iff the result at ls[i] is a non-text format more      *)
(* specific than the root.  Once 1, it must stay 1.                        *)
(***************************************************************************)
EXTENDS Integers, Sequences, TLC, Json, IOUtils
Log == ndJsonDeserialize(IOEnv.TRACE)
VARIABLE l
E == Log[l]
Check(name, what, cond) == IF cond THEN TRUE ELSE PrintT(<<"VIOLATION", name, l, what>>)
FirstBin(nt) == LET s == {i \in 1..Len(nt) : nt[i] = 1} IN IF s = {} THEN 0 ELSE CHOOSE i \in s : \A j \in s : i <= j
Init == l = 1 /\ TLCSet(42, 1)
Next == /\ l <= Len(Log)
        /\ LET f == FirstBin(E.nt) IN
           Check("C17", "binary identification lost at a larger limit", f > 0 => \A j \in f..Len(E.nt) : E.nt[j] = 1)
        /\ l' = l + 1 /\ TLCSet(42, l + 1)
Spec == Init /\ [][Next]_l
Accepted == TLCGet(42) = Len(Log) + 1
=============================================================================
