----------------------------- MODULE CloneHist -----------------------------
(***************************************************************************)
(* Results are copies: histories of detections and extensions (C02, C03).  *)
(*                                                                         *)
(* A detection returns a fresh copy of the matched node and of all its     *)
(* ancestors (mime.go cloneHierarchy).  The specification therefore has NO *)
(* state besides the tree: the chain of a result is the path from the      *)
(* matched node to the root, whatever was detected before, and extending   *)
(* a COPY (a value returned by Detect) does not change the tree - that is  *)
(* what the code does, named here as its own action (ExtCopy).             *)
(* A fragment of the real tree is modelled, chosen for the nodes that      *)
(* share a type string with an ancestor (har under json, aaf under ole     *)
(* under the root; mqv shares its string with quicktime) and for the charset-bearing types. *)
(* TLC enumerates every history of <= MaxLen operations; each history is   *)
(* replayed in a FRESH process (package-level state cannot be reset) and   *)
(* the shape clauses of C02 are evaluated on every result.                 *)
(***************************************************************************)
EXTENDS Integers, Sequences, FiniteSets, TLC, Json
CONSTANTS MaxLen

Nodes == {"root", "txt", "json", "har", "geo", "gltf", "html", "xml", "ole", "aaf", "msi", "zip", "png", "qt", "mp4", "mqv"}
Parent(n) == CASE n \in {"root", "txt", "ole", "zip", "png", "qt", "mp4"} -> "root"
               [] n \in {"json", "html", "xml"} -> "txt"
               [] n \in {"har", "geo", "gltf"} -> "json"
               [] n \in {"aaf", "msi"} -> "ole"
               [] n = "mqv" -> "mp4"
\* the bare type string of each node
Name(n) == CASE n \in {"root", "aaf"} -> "application/octet-stream"
             [] n = "txt" -> "text/plain" [] n \in {"json", "har"} -> "application/json"
             [] n = "geo" -> "application/geo+json" [] n = "gltf" -> "model/gltf+json"
             [] n = "html" -> "text/html" [] n = "xml" -> "text/xml"
             [] n = "ole" -> "application/x-ole-storage" [] n = "msi" -> "application/x-ms-installer"
             [] n = "zip" -> "application/zip" [] n = "png" -> "image/png"
             [] n \in {"qt", "mqv"} -> "video/quicktime" [] n = "mp4" -> "video/mp4"
CharsetBearing == {"txt", "html", "xml"}

\* inputs: one sample per leaf class; the class names the node the sample ends on in the initial tree
Classes == Nodes \ {"root", "ole"}     \* the mp4 and qt samples share their first eight bytes (box size + "ftyp")
RECURSIVE PathTo(_)
PathTo(n) == IF n = "root" THEN <<"root">> ELSE Append(PathTo(Parent(n)), n)      \* root first

\* node extensions carry an always-true detector and are the first child: a walk that reaches
\* an extended node ends on its extension
ExtOf(n) == "ext-" \o n
\* a chain of ChainLen nested always-true extensions below n (registered one under the other)
ChainLen == 12
ChainOf(n) == [i \in 1..ChainLen |-> "chain-" \o n \o "-" \o ToString(i)]
RECURSIVE Walk(_, _, _)
Walk(path, i, ext) == IF ("chain:" \o path[i]) \in ext THEN SubSeq(path, 1, i) \o ChainOf(path[i])
                      ELSE IF path[i] \in ext THEN SubSeq(path, 1, i) \o <<ExtOf(path[i])>>
                      ELSE IF i = Len(path) THEN path ELSE Walk(path, i + 1, ext)
ResultPath(cls, ext) == Walk(PathTo(cls), 1, ext)                               \* root first
Rev(s) == [i \in 1..Len(s) |-> s[Len(s) + 1 - i]]
NameOf(x) == IF x \in Nodes THEN Name(x) ELSE "verif/" \o x
ExpectedChain(cls, ext) == LET p == Rev(ResultPath(cls, ext)) IN [i \in 1..Len(p) |-> NameOf(p[i])]   \* result first

VARIABLES hist, ext
vars == <<hist, ext>>
Init == hist = <<>> /\ ext = {}
Detect(c) == /\ hist' = Append(hist, [op |-> "detect", cls |-> c, chain |-> ExpectedChain(c, ext),
                                       params |-> (ResultPath(c, ext)[Len(ResultPath(c, ext))] \in CharsetBearing)])
             /\ UNCHANGED ext
\* Extend called on the value returned by a detection of class c: the tree does not change
ExtCopy(c) == /\ hist' = Append(hist, [op |-> "extcopy", cls |-> c, chain |-> <<>>, params |-> FALSE])
              /\ UNCHANGED ext
\* Extend called on the tree node n
ExtNode(n) == /\ n \notin ext /\ ("chain:" \o n) \notin ext
              /\ hist' = Append(hist, [op |-> "extnode", cls |-> n, chain |-> <<>>, params |-> FALSE])
              /\ ext' = ext \cup {n}
ExtChain(n) == /\ ("chain:" \o n) \notin ext /\ n \notin ext       \* one kind of extension per node (their order would matter)
               /\ hist' = Append(hist, [op |-> "extchain", cls |-> n, chain |-> <<>>, params |-> FALSE])
               /\ ext' = ext \cup {"chain:" \o n}
ChainNodes == {"root", "json"}
CopyClasses == {"html", "xml", "txt", "json", "har", "aaf"}
ExtNodes == {"root", "json", "html", "ole"}
Next == /\ Len(hist) < MaxLen
        /\ \/ \E c \in Classes : Detect(c)
           \/ \E c \in CopyClasses : ExtCopy(c)
           \/ \E n \in ExtNodes : ExtNode(n)
           \/ \E n \in ChainNodes : ExtChain(n)
Spec == Init /\ [][Next]_vars

\* C02 on the model: every chain is finite, ends at the root's name, and only the result itself
\* (never an ancestor) stands on a charset-bearing node... ancestors may BE text/plain but carry no parameters
ChainsRooted == \A i \in 1..Len(hist) : hist[i].op = "detect" =>
                   /\ Len(hist[i].chain) \in 1..(6 + ChainLen)
                   /\ hist[i].chain[Len(hist[i].chain)] = "application/octet-stream"
\* the result of a detection does not depend on earlier detections or on extensions of copies
HistoryFree == \A i \in 1..Len(hist) : hist[i].op = "detect" =>
                   hist[i].chain = ExpectedChain(hist[i].cls, {hist[j].cls : j \in {k \in 1..(i - 1) : hist[k].op = "extnode"}}
                                                    \cup {"chain:" \o hist[j].cls : j \in {k \in 1..(i - 1) : hist[k].op = "extchain"}})
Dump == Len(hist) = MaxLen => PrintT(ToJson(hist))
=============================================================================
