------------------------------- MODULE RWLock -------------------------------
(***************************************************************************)
(* The lock discipline of Sys.tla in isolation (readers: Detect* / Lookup  *)
(* between RLock and RUnlock; writers: Extend between Lock and Unlock),    *)
(* with an inductive invariant checked by Apalache for any number of       *)
(* steps: Init => IndInv and IndInv /\ Next => IndInv'.                    *)
(***************************************************************************)
EXTENDS Integers, FiniteSets

CONSTANT
    \* @type: Set(Str);
    Procs

VARIABLES
    \* @type: Int;
    readers,
    \* @type: Bool;
    writer,
    \* @type: Str -> Str;
    pc

CInit == Procs = {"g1", "g2", "g3", "g4", "g5"}

Init == readers = 0 /\ writer = FALSE /\ pc = [g \in Procs |-> "idle"]

RLock(g) == pc[g] = "idle" /\ ~writer /\ readers' = readers + 1 /\ pc' = [pc EXCEPT ![g] = "reading"] /\ UNCHANGED writer
RUnlock(g) == pc[g] = "reading" /\ readers' = readers - 1 /\ pc' = [pc EXCEPT ![g] = "idle"] /\ UNCHANGED writer
Lock(g) == pc[g] = "idle" /\ ~writer /\ readers = 0 /\ writer' = TRUE /\ pc' = [pc EXCEPT ![g] = "writing"] /\ UNCHANGED readers
Unlock(g) == pc[g] = "writing" /\ writer' = FALSE /\ pc' = [pc EXCEPT ![g] = "idle"] /\ UNCHANGED readers
Next == \E g \in Procs : RLock(g) \/ RUnlock(g) \/ Lock(g) \/ Unlock(g)

TypeOK == readers \in Int /\ writer \in BOOLEAN /\ pc \in [Procs -> {"idle", "reading", "writing"}]
IndInv == /\ TypeOK
          /\ readers = Cardinality({g \in Procs : pc[g] = "reading"})
          /\ writer = (\E g \in Procs : pc[g] = "writing")
          /\ Cardinality({g \in Procs : pc[g] = "writing"}) <= 1
          /\ (writer => readers = 0)
\* the property
RWExcl == writer => readers = 0
NoWriterWhileReading == \A g \in Procs : \A h \in Procs : ~(pc[g] = "reading" /\ pc[h] = "writing")
=============================================================================
