SPECIFICATION Spec
CONSTANTS
  Mode = "hostile2"
  LabelSet <- QuickLabels
INVARIANTS TagInv ContentInv DumpDocs
CHECK_DEADLOCK FALSE
