SPECIFICATION Spec
CONSTANTS
  Chunks <- ByteChunks
  MaxLen = 10
  MaxChunks = 99
  Cap = 3
  QTypes <- OnlyJson
INVARIANTS C09Whole C09Trunc C08Whole C08Trunc C16Depth IbIsCursor PathBalanced PathBounded
VIEW View
CHECK_DEADLOCK FALSE
