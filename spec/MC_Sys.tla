------------------------------- MODULE MC_Sys -------------------------------
EXTENDS Sys, Json

P1 == {"g1"}
P2 == {"g1", "g2"}
P3 == {"g1", "g2", "g3"}
E2 == <<"e1", "e2">>
E3 == <<"e1", "e2", "e3">>
P8 == {"g1", "g2", "g3", "g4", "g5", "g6", "g7", "g8"}
E12 == <<"e1", "e2", "e3", "e4", "e5", "e6", "e7", "e8", "e9", "e10", "e11", "e12">>
AccAll == SUBSET Inputs
AccSome == {{}, {"x1"}, {"x2"}, {"x1", "x2", "x3"}}
AccTwo == {{}, {"x1", "x2"}}
AccThree == {{}, {"x1"}, {"x2", "x3"}}
E1 == <<"e1">>
AlNone == {<<>>}
AlSome == {<<>>, <<"al1">>, <<"al1", "al2">>}
AlTwo == {<<>>, <<"al1">>}
Lim01 == {0, 1}
Lim1 == {1}
AccOne == {{"x1", "x2"}}
Missing == {"missing"}
NoExtra == {}

\* behaviours for replay: printed when every goroutine has finished its program
DumpHist == AllDone => PrintT(ToJson([h |-> hist, ch |-> children]))
=============================================================================
