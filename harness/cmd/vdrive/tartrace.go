package main

import (
	"archive/tar"
	"bufio"
	"bytes"
	stdjson "encoding/json"
	"flag"
	"fmt"
	"math/rand"
	"os"
	"path/filepath"
	"strings"
	"time"

	"github.com/gabriel-vasile/mimetype"
)

// tartrace (C18): every header shape class of MC_Tar.tla is written by archive/tar; the
// first block, the detector verdict and the Detect result are logged; for some headers
// all 512 x 255 single-byte corruptions are run and summarised per position.

type tarShape struct {
	Fmt   string `json:"fmt"`
	Typ   string `json:"typ"`
	NLen  int    `json:"nlen"`
	Num   string `json:"num"`
	Uname string `json:"uname"`
	Start string `json:"start"`
}

func tarName(sh tarShape, rng *rand.Rand) string {
	start := map[string]string{"plain": "dir/", "MZ": "MZ", "PK34": "PK\x03\x04", "pdf": "%PDF-", "gif": "GIF89a", "dotslash": "./", "nonascii": "\xc3\xa9t\xc3\xa9/",
		"bz2": "BZh91AY-notes/", "xar": "xar!backup/", "fits": "SIMPLE  =                    T/", "bmp": "BM/", "id3": "ID3/", "flac": "fLaC/",
		"riff": "RIFFxxxxWAVE/", "ftyp": "xxxxftypisom/"}[sh.Start]
	n := sh.NLen
	if len(start) > n {
		start = start[:n]
	}
	var b strings.Builder
	b.WriteString(start)
	for b.Len() < n {
		if b.Len()%17 == 16 && b.Len() < n-1 {
			b.WriteByte('/')
		} else {
			b.WriteByte(byte('a' + rng.Intn(26)))
		}
	}
	return b.String()
}

func buildTar(sh tarShape, rng *rand.Rand) ([]byte, error) {
	h := &tar.Header{Name: tarName(sh, rng), Mode: 0o644, ModTime: time.Unix(1700000000, 0)}
	switch sh.Fmt {
	case "ustar":
		h.Format = tar.FormatUSTAR
	case "pax":
		h.Format = tar.FormatPAX
	case "gnu":
		h.Format = tar.FormatGNU
	}
	body := []byte{}
	switch sh.Typ {
	case "reg":
		h.Typeflag = tar.TypeReg
		body = []byte("hello tar\n")
		h.Size = int64(len(body))
	case "dir":
		h.Typeflag = tar.TypeDir
		if !strings.HasSuffix(h.Name, "/") {
			h.Name = h.Name[:len(h.Name)-1] + "/"
		}
	case "symlink", "symlink-gpkg":
		h.Typeflag = tar.TypeSymlink
		h.Linkname = "target/of/link"
		if sh.Typ == "symlink-gpkg" { // the Gentoo exclusion is about the member NAME, not about a link target
			h.Linkname = "releases/gpkg-1"
		}
	case "hardlink", "hardlink-gpkg":
		h.Typeflag = tar.TypeLink
		h.Linkname = "other"
		if sh.Typ == "hardlink-gpkg" {
			h.Linkname = "pkg/gpkg-1"
		}
	case "vendor-X", "vendor-A", "vendor-I": // POSIX reserves 'A'..'Z' for vendor extensions (Solaris X / A, star I)
		h.Typeflag = sh.Typ[len(sh.Typ)-1]
		body = []byte("vendor data\n")
		h.Size = int64(len(body))
	case "char":
		h.Typeflag = tar.TypeChar
		h.Devmajor, h.Devminor = 4, 64
	case "fifo":
		h.Typeflag = tar.TypeFifo
	}
	switch sh.Num {
	case "small":
		h.Uid, h.Gid = 1000, 1000
	case "maxoctal":
		h.Uid, h.Gid = 0o7777777, 0o7777777
		h.Mode = 0o7777777
	case "huge":
		h.Uid, h.Gid = 1<<31-1+1000, 1<<40
		if sh.Typ == "reg" {
			h.Size = 1 << 33 // 8 GiB: base-256 in GNU headers, a PAX record otherwise
			body = nil
		}
	}
	switch sh.Uname {
	case "ascii":
		h.Uname, h.Gname = "alice", "staff"
	case "nonascii":
		h.Uname, h.Gname = "al\xc3\xafce", "st\xc3\xa4ff"
	}
	var buf bytes.Buffer
	w := tar.NewWriter(&buf)
	if err := w.WriteHeader(h); err != nil {
		return nil, err
	}
	if h.Size > 1<<20 {
		// only the header block(s) matter: the member body is not written
		w.Flush()
		out := append([]byte{}, buf.Bytes()...)
		for len(out) < 1536 {
			out = append(out, 0)
		}
		return out, nil
	}
	if len(body) > 0 {
		w.Write(body)
	}
	if err := w.Close(); err != nil {
		return nil, err
	}
	return buf.Bytes(), nil
}

func init() { cmds["tartrace"] = tartraceMain }

func tartraceMain(args []string) int {
	fs := flag.NewFlagSet("tartrace", flag.ExitOnError)
	in := fs.String("in", "", "TLC log with shapes")
	outDir := fs.String("outdir", "", "trace directory")
	shards := fs.Int("shards", 16, "trace files")
	corrupt := fs.Int("corrupt", 3, "number of headers to corrupt exhaustively")
	seed := fs.Int64("seed", 1, "seed")
	report := fs.String("out", "", "report path")
	fs.Parse(args)
	rep := newReport("tartrace")
	rng := rand.New(rand.NewSource(*seed))
	tarNode := findNode("application/x-tar", ".tar")
	tarDet := mimetype.VerifDetector(tarNode)
	ws := make([]*bufio.Writer, *shards)
	fsx := make([]*os.File, *shards)
	for i := range ws {
		f, err := os.Create(filepath.Join(*outDir, fmt.Sprintf("tar-%02d.ndjson", i)))
		if err != nil {
			fmt.Fprintln(os.Stderr, err)
			return 2
		}
		fsx[i] = f
		ws[i] = bufio.NewWriterSize(f, 1<<20)
	}
	emit := func(k int, v any) {
		b, _ := stdjson.Marshal(v)
		ws[k%*shards].Write(b)
		ws[k%*shards].WriteByte('\n')
	}
	var shapes []tarShape
	err := tlcVectorLines(*in, func(b []byte) {
		var s tarShape
		if err := stdjson.Unmarshal(b, &s); err != nil {
			fmt.Fprintln(os.Stderr, "bad shape", err)
			os.Exit(2)
		}
		shapes = append(shapes, s)
	})
	if err != nil || len(shapes) == 0 {
		fmt.Fprintln(os.Stderr, "no shapes", err)
		return 2
	}
	mimetype.SetLimit(3072)
	var written, refused, exempt, corruptions int64
	var blocks [][]byte
	fmtSeen := map[string]bool{}
	var blockFmts []string
	formats := map[string]int{}
	for i, sh := range shapes {
		raw, err := buildTar(sh, rng)
		if err != nil {
			refused++ // the writer itself refuses this combination (e.g. USTAR with a 256-byte name)
			continue
		}
		written++
		formats[sh.Fmt+"/"+sh.Typ]++
		blk := raw[:512]
		// the first block is complete under every limit >= 512 (and 0): limits that are not record multiples too
		lim := []uint32{3072, 3072, 0, 512, 1000, 2000, 10000}[i%7]
		mimetype.SetLimit(lim)
		hdr := raw
		if lim > 0 && len(hdr) > int(lim) {
			hdr = hdr[:lim]
		}
		acc := tarDet(exact(hdr), lim)
		m := mimetype.Detect(exact(raw))
		ch := bareChain(m)
		ex := ch[0] != "application/x-tar" && len(ch) > 1 && ch[len(ch)-2] != "application/x-tar"
		// exempt only if an EARLIER root sibling claimed it: anything but tar / text / unknown
		if ch[0] == "application/octet-stream" || (len(ch) >= 2 && ch[len(ch)-2] == "text/plain") {
			ex = false
		}
		if ex {
			exempt++
		}
		rootChild := ch[0]
		if len(ch) >= 2 {
			rootChild = ch[len(ch)-2]
		}
		emit(i, map[string]any{"ev": "tar", "id": i, "block": bytes2ints(blk), "accepted": acc, "result": ch[0], "rootchild": rootChild, "exempt": ex, "shape": sh, "limit": lim})
		mimetype.SetLimit(3072)
		// headers corrupted exhaustively: spread over the enumeration, and at least one of each writer format
		if len(blocks) < *corrupt && (!fmtSeen[sh.Fmt] || (len(fmtSeen) >= 3 && (i%(len(shapes) / *corrupt + 1)) == 0)) && acc {
			fmtSeen[sh.Fmt] = true
			blocks = append(blocks, append([]byte{}, raw...))
			blockFmts = append(blockFmts, sh.Fmt+"/"+sh.Typ+"/"+fmt.Sprintf("%q", raw[257:265]))
		}
		if written%1500 == 1 {
			rep.sample(map[string]any{"shape": sh, "name": fmt.Sprintf("%q", blk[:40]), "accepted": acc, "result": m.String()})
		}
	}
	for bi, raw := range blocks {
		for pos := 0; pos < 512; pos++ {
			orig := raw[pos]
			tv := []int{}
			tdv := []int{}
			for v := 0; v < 256; v++ {
				if byte(v) == orig {
					continue
				}
				raw[pos] = byte(v)
				corruptions++
				if tarDet(raw, 3072) {
					tv = append(tv, v)
				}
				if baseType(mimetype.Detect(raw).String()) == "application/x-tar" {
					tdv = append(tdv, v)
				}
			}
			raw[pos] = orig
			emit(bi*512+pos, map[string]any{"ev": "corrupt", "id": bi, "pos": pos, "tar_vals": tv, "tar_detect_vals": tdv})
		}
	}
	for i := range ws {
		ws[i].Flush()
		fsx[i].Close()
	}
	rep.Evaluations = written + corruptions
	rep.Nontrivial = corruptions
	rep.Extra["shapes"] = len(shapes)
	rep.Extra["headers_written"] = written
	rep.Extra["refused_by_writer"] = refused
	rep.Extra["exempt_higher_priority"] = exempt
	rep.Extra["single_byte_corruptions"] = corruptions
	rep.Extra["headers_corrupted_exhaustively"] = len(blocks)
	rep.Extra["corrupted_header_kinds"] = blockFmts
	rep.write(*report)
	return 0
}
