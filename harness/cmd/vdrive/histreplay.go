package main

import (
	"bytes"
	stdjson "encoding/json"
	"flag"
	"fmt"
	"os"
	"runtime"
	"runtime/debug"
	"strings"
	"sync"

	"github.com/gabriel-vasile/mimetype"
)

// histreplay (C04): replays the call histories of MC_Pool.tla on the real package, pinned
// to one P with the collector off so that sync.Pool reuse is deterministic; every call
// must give the answer the same call gives when the pools are empty.

func paletteInput(x string) []byte {
	switch x {
	case "geo":
		return []byte(`{"type":"Feature","x":[1,2,{"y":null}]}`)
	case "har":
		return []byte(`{"log":{"version":"1.2","creator":{},"entries":[]}}`)
	case "abortdeep":
		return []byte(`{"a":{"b":{"c":[1,{"d":x`)
	case "path200":
		return []byte(strings.Repeat(`{"k":`, 200))
	case "truncjson":
		return []byte(`["` + strings.Repeat("a", 5000))
	case "scalar":
		return []byte("123")
	case "empty":
		return []byte{}
	case "csvabort":
		return []byte("a,b\n1,2,3\n" + strings.Repeat("x,y\n", 2000))
	case "csvok":
		return []byte("a,b\n1,2\n3,4\n")
	case "huge":
		return []byte("[" + strings.Repeat("1234567,", 150000) + "1]")
	case "ndjson":
		return []byte("{\"a\":1}\n{\"b\":2}\n")
	case "binary":
		return []byte("\x89PNG\x0d\x0a\x1a\x0a\x00\x00\x00\x0dIHDR\x00\x00")
	case "csvtsvabort": // both the comma and the tab reader give up before the last line
		return []byte("a,b\nc\td\nx,y\n")
	case "onerec":
		return []byte("k,v\n")
	case "blanklines":
		return []byte("\n\n \n\n")
	case "wsjson":
		return []byte(" \n\t ")
	case "plain":
		return []byte("just some words\nand more words\n")
	}
	return nil
}

type obs struct {
	s, ext, chain, err string
}

func doCall(x string) obs {
	switch x {
	case "lim0":
		mimetype.SetLimit(0)
		return obs{s: "setlimit"}
	case "limD":
		mimetype.SetLimit(3072)
		return obs{s: "setlimit"}
	case "lim64":
		mimetype.SetLimit(64)
		return obs{s: "setlimit"}
	case "rdtail", "rdgeo": // through the reader entry point
		in := []byte(strings.Repeat("a", 100) + strings.Repeat("\x00", 200) + strings.Repeat("b", 3000))
		if x == "rdgeo" {
			in = paletteInput("geo")
		}
		m, err := mimetype.DetectReader(bytes.NewReader(in))
		return obs{s: m.String(), ext: m.Extension(), chain: strings.Join(chain(m), ">"), err: fmt.Sprint(err)}
	case "readerr":
		m, err := mimetype.DetectReader(&faultReader{data: []byte(`{"a":`)})
		return obs{s: m.String(), ext: m.Extension(), chain: strings.Join(chain(m), ">"), err: fmt.Sprint(err)}
	}
	in := paletteInput(x)
	buf := exact(in)
	m := mimetype.Detect(buf)
	o := obs{s: m.String(), ext: m.Extension(), chain: strings.Join(chain(m), ">")}
	if !bytes.Equal(buf, in) {
		o.err = "BUFFER MODIFIED"
	}
	return o
}

func clearPools() {
	runtime.GC()
	runtime.GC()
}

func init() { cmds["histreplay"] = histreplayMain }

func histreplayMain(args []string) int {
	fs := flag.NewFlagSet("histreplay", flag.ExitOnError)
	in := fs.String("in", "", "TLC log")
	out := fs.String("out", "", "report")
	stride := fs.Int("stride", 1, "replay every n-th history only")
	fs.Parse(args)
	rep := newReport("histreplay")
	runtime.GOMAXPROCS(1)
	runtime.LockOSThread()
	var hists [][]string
	nseen := 0
	err := tlcVectorLines(*in, func(b []byte) {
		var v struct {
			H []string `json:"h"`
		}
		if err := stdjson.Unmarshal(b, &v); err != nil {
			fmt.Fprintln(os.Stderr, "bad history", err)
			os.Exit(2)
		}
		nseen++
		if nseen%*stride == 0 {
			hists = append(hists, v.H)
		}
	})
	if err != nil || len(hists) == 0 {
		fmt.Fprintln(os.Stderr, "no histories", err)
		return 2
	}
	// baselines with empty pools
	ops := map[string]bool{}
	for _, h := range hists {
		for _, x := range h {
			ops[x] = true
		}
	}
	base := map[string]obs{}
	for x := range ops {
		if x == "lim0" || x == "limD" || x == "lim64" {
			continue
		}
		for _, lim := range []uint32{0, 3072, 64} {
			clearPools()
			mimetype.SetLimit(lim)
			base[fmt.Sprintf("%s@%d", x, lim)] = doCall(x)
		}
	}
	var dirtyParse, totalParse, dirtyReader, totalReader int64
	mimetype.VerifSetJSONHook(func(e mimetype.VerifJSONEvent) {
		if e.Kind == "enter" {
			totalParse++
			if e.IB != 0 || e.PathLen != 0 || e.First != 0 || e.QSat {
				dirtyParse++
			}
		}
	})
	mimetype.VerifSetCSVHook(func(buffered int) {
		totalReader++
		if buffered > 0 {
			dirtyReader++
		}
	})
	debug.SetGCPercent(-1)
	var calls, nontriv int64
	for _, h := range hists {
		clearPools()
		lim := uint32(3072)
		mimetype.SetLimit(lim)
		d0 := dirtyParse + dirtyReader
		for i, x := range h {
			o := doCall(x)
			calls++
			if x == "lim0" {
				lim = 0
				continue
			}
			if x == "limD" {
				lim = 3072
				continue
			}
			if x == "lim64" {
				lim = 64
				continue
			}
			want := base[fmt.Sprintf("%s@%d", x, lim)]
			if o != want {
				rep.violate(Violation{Property: "C04", Kind: "history-dependent-result", Text: fmt.Sprintf("history %v, call %d (%s), limit %d", h, i+1, x, lim),
					Limit: int64(lim), Detail: fmt.Sprintf("after this history: %+v; with empty pools: %+v", o, want), Key: fmt.Sprintf("C04|hist|%v|%d", h, i)})
			}
		}
		if dirtyParse+dirtyReader > d0 {
			nontriv++
		}
	}
	debug.SetGCPercent(100)
	mimetype.VerifSetJSONHook(nil)
	mimetype.VerifSetCSVHook(nil)
	// second pass: the same histories on 8 goroutines at once (limit fixed at the default)
	runtime.GOMAXPROCS(8)
	mimetype.SetLimit(3072)
	var wg sync.WaitGroup
	var mu sync.Mutex
	var conc int64
	for g := 0; g < 8; g++ {
		wg.Add(1)
		go func(g int) {
			defer wg.Done()
			for k := g; k < len(hists); k += 8 {
				for _, x := range hists[k] {
					if x == "lim0" || x == "limD" || x == "lim64" {
						continue
					}
					o := doCall(x)
					want := base[fmt.Sprintf("%s@%d", x, 3072)]
					mu.Lock()
					conc++
					if o != want {
						rep.NViol["C04"]++
						if len(rep.Violations) < 50 {
							rep.Violations = append(rep.Violations, Violation{Property: "C04", Kind: "history-dependent-result-concurrent", Text: fmt.Sprintf("history %v (%s)", hists[k], x), Detail: fmt.Sprintf("got %+v want %+v", o, want), Key: fmt.Sprintf("C04|conc|%s", x)})
						}
					}
					mu.Unlock()
				}
			}
		}(g)
	}
	wg.Wait()
	rep.Evaluations = calls + conc
	rep.Nontrivial = nontriv
	rep.Extra["histories"] = len(hists)
	rep.Extra["histories_with_a_call_started_from_dirty_pooled_state"] = nontriv
	rep.Extra["parses_total"] = totalParse
	rep.Extra["parses_started_dirty"] = dirtyParse
	rep.Extra["csv_readers_taken"] = totalReader
	rep.Extra["csv_readers_with_buffered_leftovers"] = dirtyReader
	rep.Extra["concurrent_calls"] = conc
	for i := 0; i < len(hists) && i < 6; i++ {
		rep.sample(map[string]any{"history": hists[i*len(hists)/6]})
	}
	rep.write(*out)
	return 0
}
