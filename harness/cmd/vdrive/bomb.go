package main

import (
	"bytes"
	stdjson "encoding/json"
	"flag"
	"fmt"
	"os"
	"runtime"
	"runtime/debug"
	"strings"
	"time"

	"github.com/gabriel-vasile/mimetype"
)

// bomb runs ONE nesting-bomb case in this process (the orchestrator starts one child per
// case) with a small maximum stack, and prints one TraceBomb record on stdout.

type bombRec struct {
	Ev       string `json:"ev"`
	Prefix   string `json:"prefix"`
	Warm     bool   `json:"warm"`
	PLen     int    `json:"plen"`
	Shape    string `json:"shape"`
	N        int    `json:"n"`
	Closed   bool   `json:"closed"`
	Limit    int64  `json:"limit"`
	Entry    string `json:"entry"`
	Returned bool   `json:"returned"`
	MaxLvl   int    `json:"maxlvl"`
	Cls      string `json:"cls"`
	Parses   int    `json:"parses"`
	Mime     string `json:"mime"`
	WallMs   int64  `json:"wall_ms"`
}

func bombInput(shape string, n int, closed bool, prefix string) []byte {
	units := map[string]string{"arr": "[", "obj": `{"k":`, "mixed": `[{"k":`, "pad": " [", "arrc": "[", "arrnf": "[0,", "objnf": `{"a":0,"k":`, "objsp": `{"k": `}
	closers := map[string]string{"arr": "]", "obj": "}", "mixed": "}]", "pad": "]", "arrc": "]", "arrnf": "]", "objnf": "}", "objsp": "}"}
	u, ok := units[shape]
	if !ok {
		fmt.Fprintln(os.Stderr, "unknown shape", shape)
		os.Exit(2)
	}
	var b bytes.Buffer
	b.Grow(n*(len(u)+2) + 2)
	b.WriteString(prefix)
	b.WriteString(strings.Repeat(u, n))
	if closed && shape == "arrc" {
		b.WriteByte(',') // a comma where a value must stand: never well-formed
		b.WriteString(strings.Repeat(closers[shape], n))
	} else if closed {
		b.WriteByte('1')
		b.WriteString(strings.Repeat(closers[shape], n))
	}
	return b.Bytes()
}

func init() { cmds["bomb"] = bombMain }

func bombMain(args []string) int {
	fs := flag.NewFlagSet("bomb", flag.ExitOnError)
	shape := fs.String("shape", "arr", "arr|obj|mixed|pad")
	n := fs.Int("n", 1000, "number of units")
	closed := fs.Bool("closed", false, "append a scalar and the matching closers")
	limit := fs.Int64("limit", 0, "read limit")
	entry := fs.String("entry", "Detect", "Detect|DetectReader|json|geo|har|gltf|ndjson")
	maxStack := fs.Int("maxstack", 32<<20, "debug.SetMaxStack")
	prefixKind := fs.String("prefix", "", "a valid beginning placed before the units: lead0 | leadq | leadobj | coords | feat")
	warm := fs.Bool("warm", false, "detect a few short documents first (same process, one P, GC off)")
	fs.Parse(args)

	debug.SetMaxStack(*maxStack)
	prefixes := map[string]string{"": "", "lead0": "[0,", "leadq": `["\"",`, "leadobj": `{"a":0,"k":`,
		"coords": `{"type":"Polygon","coordinates":`, "feat": `{"type":"FeatureCollection","features":`}
	if *warm {
		// a history: short documents parsed first on the same pooled scanner state (one P, no GC in between)
		runtime.GOMAXPROCS(1)
		debug.SetGCPercent(-1)
		for _, w := range []string{"[1]", `{"a":1}`, "{}\n[]\n", `{"type":"Feature"}`} {
			mimetype.Detect([]byte(w))
		}
	}
	in := bombInput(*shape, *n, *closed, prefixes[*prefixKind])
	rec := bombRec{Ev: "bomb", Prefix: *prefixKind, PLen: len(prefixes[*prefixKind]), Shape: *shape, N: *n, Closed: *closed, Limit: *limit, Entry: *entry, Warm: *warm}
	mimetype.VerifSetJSONHook(func(e mimetype.VerifJSONEvent) {
		switch e.Kind {
		case "lvl":
			if e.Lvl > rec.MaxLvl {
				rec.MaxLvl = e.Lvl
			}
		case "enter":
			rec.Parses++
		}
	})
	nodes := loadJSONNodes()
	t0 := time.Now()
	switch *entry {
	case "Detect", "DetectReader":
		mimetype.SetLimit(uint32(*limit))
		var m *mimetype.MIME
		if *entry == "Detect" {
			m = mimetype.Detect(in)
		} else {
			var err error
			m, err = mimetype.DetectReader(bytes.NewReader(in))
			if err != nil {
				fmt.Fprintln(os.Stderr, "unexpected reader error", err)
				return 2
			}
		}
		rec.Cls, _ = nodes.classOf(m)
		rec.Mime = m.String()
	default:
		hdr := in
		if *limit > 0 && int64(len(hdr)) > *limit {
			hdr = hdr[:*limit]
		}
		var det func([]byte, uint32) bool
		if *entry == "ndjson" {
			det = mimetype.VerifDetector(nodes.ndjson)
		} else {
			det = nodes.det[*entry]
		}
		if det == nil {
			fmt.Fprintln(os.Stderr, "unknown entry", *entry)
			return 2
		}
		if det(hdr, uint32(*limit)) {
			rec.Cls = *entry
			if *entry == "ndjson" {
				rec.Cls = "" // not the JSON family
			}
		}
	}
	rec.Returned = true
	rec.WallMs = time.Since(t0).Milliseconds()
	b, _ := stdjson.Marshal(rec)
	fmt.Println(string(b))
	return 0
}
