package main

import (
	"bufio"
	"bytes"
	stdjson "encoding/json"
	"flag"
	"fmt"
	"io"
	"math/rand"
	"os"
	"path/filepath"
	"strings"
	"sync"

	"github.com/gabriel-vasile/mimetype"
)

// conctrace: free-running goroutines call the real API; the hooks append one event per
// linearization point to a global log (for TraceConc.tla).  With -notrace no hook is
// installed at all (no extra synchronisation): that mode is for the race detector.

type concEvent map[string]any

type concLog struct {
	mu      sync.Mutex
	events  []concEvent
	gid     map[int64]string
	extID   map[*mimetype.MIME]string
	lastPub map[string]*mimetype.MIME
}

func (c *concLog) add(e concEvent) {
	c.mu.Lock()
	c.events = append(c.events, e)
	c.mu.Unlock()
}

var hookEvents = map[string]bool{
	"detect.loaded": true, "detect.rlocked": true, "detect.done": true,
	"ext.locked": true, "ext.published": true,
	"lookup.rlocked": true, "lookup.done": true, "setlimit.stored": true,
}

func (c *concLog) hook(ev mimetype.VerifEvent) {
	if !hookEvents[ev.Point] {
		return
	}
	id := goid()
	c.mu.Lock()
	g := c.gid[id]
	if g != "" {
		e := concEvent{"ev": ev.Point, "g": g}
		if ev.Point == "detect.loaded" {
			e["limit"] = int64(ev.Limit)
		}
		if ev.Point == "ext.published" {
			c.lastPub[g] = ev.Child
		}
		c.events = append(c.events, e)
	}
	c.mu.Unlock()
}

func realToID(name string) string {
	switch baseType(name) {
	case "application/octet-stream":
		return "root"
	case "application/zip":
		return "bin"
	case "application/jar":
		return "binc"
	case "text/plain":
		return "txt"
	case "application/json":
		return "tj"
	}
	if strings.HasPrefix(name, extPrefix) {
		return strings.TrimPrefix(name, extPrefix)
	}
	return "?" + name
}

type slowReader struct {
	r   io.Reader
	rng *rand.Rand
}

func (s *slowReader) Read(p []byte) (int, error) {
	if len(p) > 1 {
		p = p[:1+s.rng.Intn(len(p))]
	}
	return s.r.Read(p)
}

func init() { cmds["conctrace"] = conctraceMain }

func conctraceMain(args []string) int {
	fs := flag.NewFlagSet("conctrace", flag.ExitOnError)
	outDir := fs.String("outdir", "", "directory for traces")
	runs := fs.Int("runs", 8, "independent runs (one trace each)")
	gor := fs.Int("goroutines", 4, "goroutines per run")
	opsN := fs.Int("ops", 60, "operations per goroutine")
	maxExt := fs.Int("maxext", 10, "extensions per run")
	seed := fs.Int64("seed", 1, "seed")
	notrace := fs.Bool("notrace", false, "install no hook (race-detector stress)")
	burst := fs.Bool("burst", false, "every goroutine starts with an Extend on the same parent, released together")
	report := fs.String("out", "", "report path")
	fs.Parse(args)

	m := newSysMap()
	if err := m.sanity(); err != nil {
		fmt.Fprintln(os.Stderr, "oracle sanity:", err)
		return 2
	}
	rep := newReport("conctrace")
	tmp, _ := os.MkdirTemp("", "vdrive-conc")
	defer os.RemoveAll(tmp)
	files := map[string]string{}
	for id, b := range m.inputs {
		p := filepath.Join(tmp, id)
		os.WriteFile(p, b, 0o600)
		files[id] = p
	}
	var totalEvents, totalOps int64
	for run := 0; run < *runs; run++ {
		m.reset()
		lg := &concLog{gid: map[int64]string{}, extID: map[*mimetype.MIME]string{}, lastPub: map[string]*mimetype.MIME{}}
		if !*notrace {
			mimetype.VerifHook = lg.hook
		}
		var extMu sync.Mutex
		extCount := 0
		published := []string{"root", "bin", "binc", "txt", "tj"} // attach points known to be in the tree
		owners := []*aliasOwner{}
		var wg sync.WaitGroup
		var startGate sync.WaitGroup
		startGate.Add(1)
		burstParent := []string{"root", "txt", "bin", "tj"}[run%4]
		for gi := 0; gi < *gor; gi++ {
			wg.Add(1)
			go func(gi int) {
				defer wg.Done()
				g := fmt.Sprintf("g%d", gi+1)
				lg.mu.Lock()
				lg.gid[goid()] = g
				lg.mu.Unlock()
				rng := rand.New(rand.NewSource(*seed*100003 + int64(run)*1009 + int64(gi)))
				xs := []string{"x1", "x2", "x3"}
				doLookup := func(name string) {
					extMu.Lock()
					ownersNow := append([]*aliasOwner(nil), owners...)
					extMu.Unlock()
					lg.add(concEvent{"ev": "lookup.enter", "g": g, "name": name})
					res := mimetype.Lookup(m.realName(name))
					found, fp := "none", "none"
					if res != nil {
						found = realToID(res.String())
						if res.Parent() != nil {
							fp = realToID(res.Parent().String())
						}
						_ = res.Is(m.realName(name))
					}
					intact := true
					for _, o := range ownersNow {
						if !o.intact() {
							intact = false
						}
					}
					lg.add(concEvent{"ev": "lookup.ret", "g": g, "found": found, "fp": fp, "backing_unchanged": intact})
				}
				startGate.Wait()
				for k := 0; k < *opsN; k++ {
					c := rng.Intn(20)
					forceParent := ""
					if *burst && k == 0 {
						c, forceParent = 12, burstParent
					}
					switch {
					case c < 9: // detect through a random entry point
						x := xs[rng.Intn(3)]
						in := exact(m.inputs[x])
						lg.add(concEvent{"ev": "detect.enter", "g": g, "x": x})
						var res *mimetype.MIME
						var err error
						switch rng.Intn(4) {
						case 0:
							res, err = mimetype.DetectReader(bytes.NewReader(in))
						case 1:
							res, err = mimetype.DetectReader(&slowReader{r: bytes.NewReader(in), rng: rng})
						case 2:
							res, err = mimetype.DetectFile(files[x])
						default:
							res = mimetype.Detect(in)
						}
						if err != nil {
							fmt.Fprintln(os.Stderr, "unexpected error", err)
							os.Exit(2)
						}
						ch := bareChain(res)
						path := make([]string, len(ch))
						for i := range ch {
							path[len(ch)-1-i] = realToID(ch[i])
						}
						lg.add(concEvent{"ev": "detect.ret", "g": g, "path": path})
						if !bytes.Equal(in, m.inputs[x]) {
							rep.violate(Violation{Property: "C04", Kind: "caller-buffer-modified", Key: "C04|buffer|" + x, Detail: "input modified"})
						}
						// accessors of returned values, concurrently with writers
						_ = res.Is("text/plain")
						_ = res.Extension()
					case c < 12:
						v := []int64{0, 1, 3072}[rng.Intn(3)]
						lg.add(concEvent{"ev": "setlimit.enter", "g": g, "limit": v})
						mimetype.SetLimit(uint32(v))
						if *notrace {
							continue
						}
					case c < 15:
						extMu.Lock()
						if extCount >= *maxExt {
							extMu.Unlock()
							continue
						}
						extCount++
						e := fmt.Sprintf("e%d", extCount)
						p := published[rng.Intn(len(published))]
						if forceParent != "" {
							p = forceParent
						}
						parent := m.node[p]
						extMu.Unlock()
						var acc []string
						for _, x := range xs {
							if rng.Intn(2) == 0 {
								acc = append(acc, x)
							}
						}
						if acc == nil {
							acc = []string{}
						}
						alNames := [][]string{{}, {"al1"}, {"al1", "al2"}, {"al2"}}[rng.Intn(4)]
						extra := []int{0, 1, 8}[rng.Intn(3)]
						backing := make([]string, len(alNames)+extra)
						for i, a := range alNames {
							backing[i] = m.realName(a)
						}
						for i := len(alNames); i < len(backing); i++ {
							backing[i] = aliasSentinel
						}
						owner := &aliasOwner{backing: backing, n: len(alNames)}
						lg.add(concEvent{"ev": "ext.built", "g": g, "e": e, "p": p, "acc": acc, "al": alNames})
						if p == "root" && rng.Intn(2) == 0 {
							mimetype.Extend(extDetector(acc), extPrefix+e, "."+e, backing[:len(alNames)]...)
						} else {
							parent.Extend(extDetector(acc), extPrefix+e, "."+e, backing[:len(alNames)]...)
						}
						var n *mimetype.MIME
						if *notrace {
							n = mimetype.Lookup(extPrefix + e)
						} else {
							lg.mu.Lock()
							n = lg.lastPub[g]
							lg.mu.Unlock()
						}
						extMu.Lock()
						m.node[e] = n
						m.id[n] = e
						published = append(published, e)
						owners = append(owners, owner)
						extMu.Unlock()
					default:
						extMu.Lock()
						names := append([]string{"missing", "al1", "al2"}, published...)
						extMu.Unlock()
						doLookup(names[rng.Intn(len(names))])
					}
				}
				if *burst { // every extension registered so far must be found
					extMu.Lock()
					names := append([]string(nil), published[5:]...)
					extMu.Unlock()
					for _, nm := range names {
						doLookup(nm)
					}
				}
			}(gi)
		}
		startGate.Done()
		wg.Wait()
		mimetype.VerifHook = nil
		totalOps += int64(*gor * *opsN)
		if *notrace {
			continue
		}
		evs := lg.events
		totalEvents += int64(len(evs))
		f, err := os.Create(filepath.Join(*outDir, fmt.Sprintf("conc-%03d.ndjson", run)))
		if err != nil {
			fmt.Fprintln(os.Stderr, err)
			return 2
		}
		w := bufio.NewWriter(f)
		for _, e := range evs {
			b, _ := stdjson.Marshal(e)
			w.Write(b)
			w.WriteByte('\n')
		}
		w.Flush()
		f.Close()
		if run == 0 {
			for i := 0; i < len(evs) && i < 12; i++ {
				rep.sample(evs[i])
			}
		}
	}
	m.reset()
	rep.Evaluations = totalOps
	rep.Nontrivial = totalEvents
	rep.Extra["runs"] = *runs
	rep.Extra["goroutines"] = *gor
	rep.Extra["ops_per_goroutine"] = *opsN
	rep.Extra["events"] = totalEvents
	rep.write(*report)
	return 0
}
