package main

import (
	"bytes"
	"flag"
	"fmt"
	"math/rand"
	"mime"
	"os"
	"path/filepath"
	"strings"
	"sync"
	"sync/atomic"

	"github.com/gabriel-vasile/mimetype"
)

// concstress (C06): every corpus sample (plus ragged / well-formed tables and XML documents
// with fresh charset labels) is first detected sequentially; then many goroutines detect
// random samples at once through all three entry points. Every concurrent result must
// equal the sequential one ("a result that a sequential execution would have returned"),
// no call may panic, and (on a -race build) no data race may be reported. No hook is
// installed, so the run adds no synchronisation of its own.

func init() { cmds["concstress"] = concstressMain }

func concstressMain(args []string) int {
	fs := flag.NewFlagSet("concstress", flag.ExitOnError)
	corpus := fs.String("corpus", "", "corpus directory")
	gor := fs.Int("goroutines", 8, "goroutines")
	rounds := fs.Int("rounds", 40, "rounds (each starts with a sequential ragged-table detection, then a concurrent burst)")
	per := fs.Int("per", 40, "detections per goroutine and round")
	seed := fs.Int64("seed", 1, "seed")
	out := fs.String("out", "", "report")
	fs.Parse(args)
	rep := newReport("concstress")
	names, data := loadCorpus(*corpus)
	// tables of different widths, ragged text, NDJSON, JSON sub-types
	for w := 2; w <= 6; w++ {
		var b strings.Builder
		for r := 0; r < 30; r++ {
			for c := 0; c < w; c++ {
				if c > 0 {
					b.WriteByte(',')
				}
				fmt.Fprintf(&b, "v%d_%d", r, c)
			}
			b.WriteByte('\n')
		}
		names = append(names, fmt.Sprintf("csv-w%d", w))
		data = append(data, []byte(b.String()))
		names = append(names, fmt.Sprintf("tsv-w%d", w))
		data = append(data, []byte(strings.ReplaceAll(b.String(), ",", "\t")))
	}
	ragged := [][]byte{[]byte("a,b\nc\td\nx,y\nz,w,q\n"), []byte("a,b,c\n1,2\n3\n4,5,6,7\n"), []byte("h\ti\n1\t2\t3\n4\n")}
	mimetype.VerifResetTree()
	mimetype.SetLimit(3072)
	tmp, _ := os.MkdirTemp("", "vdrive-stress")
	defer os.RemoveAll(tmp)
	type exp struct{ s, ext string }
	base := make([]exp, len(data))
	paths := make([]string, len(data))
	for i, d := range data {
		m := mimetype.Detect(exact(d))
		base[i] = exp{m.String(), m.Extension()}
		paths[i] = filepath.Join(tmp, fmt.Sprintf("s%d", i))
		os.WriteFile(paths[i], d, 0o600)
	}
	var calls, fresh int64
	var labelSeq int64
	var mu sync.Mutex
	bad := func(kind, text, detail string) {
		mu.Lock()
		rep.NViol["C06"]++
		if len(rep.Violations) < 40 {
			rep.Violations = append(rep.Violations, Violation{Property: "C06", Kind: kind, Text: text, Detail: detail, Key: "C06|" + kind + "|" + text})
		}
		mu.Unlock()
	}
	for round := 0; round < *rounds; round++ {
		// a history that leaves the pooled CSV reader / JSON parser in an unusual state
		mimetype.Detect(ragged[round%len(ragged)])
		mimetype.Detect([]byte(strings.Repeat("[", 200)))
		var wg sync.WaitGroup
		start := make(chan struct{})
		for g := 0; g < *gor; g++ {
			wg.Add(1)
			go func(g int) {
				defer wg.Done()
				rng := rand.New(rand.NewSource(*seed*7919 + int64(round)*101 + int64(g)))
				<-start
				for k := 0; k < *per; k++ {
					func() {
						defer func() {
							if r := recover(); r != nil {
								bad("panic", "concurrent detection", fmt.Sprint(r))
							}
						}()
						atomic.AddInt64(&calls, 1)
						if rng.Intn(6) == 0 {
							// a (type, charset) pair never formatted before in this process
							n := atomic.AddInt64(&labelSeq, 1)
							label := fmt.Sprintf("x-label-%d", n)
							doc := []byte(`<?xml version="1.0" encoding="` + label + `"?><a/>`)
							m := mimetype.Detect(doc)
							atomic.AddInt64(&fresh, 1)
							if want := "text/xml; charset=" + label; m.String() != want {
								bad("fresh-label", label, fmt.Sprintf("got %s want %s", m, want))
							}
							if p := m.Parent(); p == nil || p.String() != "text/plain" || p.Parent() == nil || p.Parent().String() != "application/octet-stream" {
								bad("fresh-label-chain", label, fmt.Sprintf("chain %v", chain(m)))
							}
							return
						}
						i := rng.Intn(len(data))
						var m *mimetype.MIME
						var err error
						switch rng.Intn(4) {
						case 0:
							m, err = mimetype.DetectReader(bytes.NewReader(data[i]))
						case 1:
							m, err = mimetype.DetectFile(paths[i])
						default:
							m = mimetype.Detect(data[i])
						}
						if err != nil || m == nil {
							bad("error", names[i], fmt.Sprint(err))
							return
						}
						if m.String() != base[i].s || m.Extension() != base[i].ext {
							bad("differs-from-sequential", names[i], fmt.Sprintf("concurrent %s%s, sequential %s%s", m, m.Extension(), base[i].s, base[i].ext))
						}
						// accessors of the returned value
						n := 0
						for p := m; p != nil; p = p.Parent() {
							n++
							_ = p.Is(base[i].s)
						}
						if n < 1 {
							bad("chain", names[i], "empty chain")
						}
					}()
				}
			}(g)
		}
		close(start)
		wg.Wait()
		// results are values the caller may share: the read-only accessors of ONE result, first used
		// concurrently, must all see the same strings (and must not race)
		for k := 0; k < 6; k++ {
			label := fmt.Sprintf("x-shared-%d-%d", round, k)
			docs := [][]byte{[]byte(`<?xml version="1.0" encoding="` + label + `"?><a/>`), []byte("caf\xe9 shared latin text " + label), data[(round*7+k)%len(data)]}
			res := mimetype.Detect(docs[k%3])
			want := ""
			var once sync.Once
			var wg2 sync.WaitGroup
			startS := make(chan struct{})
			var wmu sync.Mutex
			for g := 0; g < *gor; g++ {
				wg2.Add(1)
				go func() {
					defer wg2.Done()
					<-startS
					s := res.String()
					once.Do(func() { wmu.Lock(); want = s; wmu.Unlock() })
					ok := res.Is(s)
					ext := res.Extension()
					n := 0
					for p := res; p != nil && n < 64; p = p.Parent() {
						n++
						_ = p.String()
					}
					wmu.Lock()
					w := want
					wmu.Unlock()
					if s == "" || (w != "" && s != w) || !ok || n < 1 {
						bad("shared-result-accessors", label, fmt.Sprintf("String()=%q (another goroutine saw %q) Is(own string)=%v extension=%q chain=%d", s, w, ok, ext, n))
					}
					atomic.AddInt64(&calls, 1)
				}()
			}
			close(startS)
			wg2.Wait()
			if _, _, err := mime.ParseMediaType(res.String()); err != nil {
				bad("shared-result-string", label, fmt.Sprintf("String()=%q after concurrent first use: %v", res.String(), err))
			}
		}
	}
	rep.Evaluations = calls
	rep.Nontrivial = fresh
	rep.Extra["samples"] = len(data)
	rep.Extra["concurrent_calls"] = calls
	rep.Extra["fresh_charset_labels"] = fresh
	rep.write(*out)
	return 0
}
