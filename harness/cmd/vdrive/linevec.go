package main

import (
	stdjson "encoding/json"
	"flag"
	"fmt"
	"os"
	"sort"

	"github.com/gabriel-vasile/mimetype"
)

// linevec replays the vectors of MC_Lines.tla (CSV / TSV / NDJSON files x every limit).

type lineVec struct {
	K      string `json:"k"`
	B      []int  `json:"b"`
	L      int64  `json:"l"`
	Acc    bool   `json:"acc"`
	Must   bool   `json:"must"`
	May    bool   `json:"may"`
	Quoted bool   `json:"quoted"`
}

func init() { cmds["linevec"] = linevecMain }

func linevecMain(args []string) int {
	fs := flag.NewFlagSet("linevec", flag.ExitOnError)
	in := fs.String("in", "", "TLC log")
	out := fs.String("out", "", "report")
	fs.Parse(args)
	rep := newReport("linevec")
	types := map[string][2]string{"csv": {"text/csv", ".csv"}, "tsv": {"text/tab-separated-values", ".tsv"}, "nd": {"application/x-ndjson", ".ndjson"}}
	dets := map[string]func([]byte, uint32) bool{}
	nodes := map[string]*mimetype.MIME{}
	for k, t := range types {
		n := findNode(t[0], t[1])
		if n == nil {
			fmt.Fprintln(os.Stderr, "node not found", t)
			return 2
		}
		nodes[k] = n
		dets[k] = mimetype.VerifDetector(n)
	}
	text := findNode("text/plain", ".txt")
	var textChildren []*mimetype.MIME
	for _, t := range mimetype.VerifTree() {
		if t.M == text {
			textChildren = t.Children
		}
	}
	// "higher-priority signature" is read against the pinned order of the children of text/plain (tree.go:83),
	// not against whatever order the tree under test has: NDJSON is consulted before CSV and TSV
	pinnedText := []string{"text/html", "image/svg+xml", "text/xml", "text/x-php", "text/javascript", "text/x-lua", "text/x-perl", "text/x-python",
		"application/json", "application/x-ndjson", "text/rtf", "application/x-subrip", "text/x-tcl", "text/csv", "text/tab-separated-values",
		"text/vcard", "text/calendar", "application/warc", "text/vtt"}
	_ = textChildren
	idxOf := func(name string) int {
		for i, c := range pinnedText {
			if c == name {
				return i
			}
		}
		return -1
	}
	var vecs []lineVec
	err := tlcVectorLines(*in, func(b []byte) {
		var v lineVec
		if err := stdjson.Unmarshal(b, &v); err != nil {
			fmt.Fprintln(os.Stderr, "bad vector", err)
			os.Exit(2)
		}
		vecs = append(vecs, v)
	})
	if err != nil || len(vecs) == 0 {
		fmt.Fprintln(os.Stderr, "no vectors", err)
		return 2
	}
	sort.SliceStable(vecs, func(i, j int) bool { return vecs[i].L < vecs[j].L })
	var n, must, cutInside, exempt int64
	cur := int64(-1)
	for k := range vecs {
		v := &vecs[k]
		raw := ints2bytes(v.B)
		hdr := raw
		if v.L > 0 && int64(len(raw)) > v.L {
			hdr = exact(raw[:v.L])
		}
		n++
		if v.Must {
			must++
			if v.L > 0 && int64(len(raw)) >= v.L {
				cutInside++
			}
		}
		got := dets[v.K](hdr, uint32(v.L))
		if got != v.Acc {
			rep.drift(fmt.Sprintf("%s detector on %q limit %d: real %v, model %v", v.K, hdr, v.L, got, v.Acc))
		}
		if v.Must && !got {
			rep.violate(mkViolation("C13", "line-format-rejected-"+v.K, hdr, v.L, "detector rejects a well-formed file cut after its second complete line"))
		}
		if got && !v.May {
			rep.violate(mkViolation("C13", "malformed-lines-accepted-"+v.K, hdr, v.L, "detector accepts although a complete line is damaged / ragged"))
		}
		if v.L != cur {
			mimetype.SetLimit(uint32(v.L))
			cur = v.L
		}
		m := mimetype.Detect(raw)
		ch := bareChain(m)
		isKind := ch[0] == types[v.K][0]
		if v.Must && !isKind {
			// exempt when a binary format or an earlier text sub-format claimed the input
			ex := false
			if len(ch) >= 2 && ch[len(ch)-2] != "text/plain" {
				ex = true
			} else if len(ch) >= 3 {
				if i := idxOf(ch[len(ch)-3]); i >= 0 && i < idxOf(types[v.K][0]) {
					ex = true
				}
			}
			if ex {
				exempt++
			} else {
				rep.violate(mkViolation("C13", "detect-lost-"+v.K, raw, v.L, "Detect reports "+m.String()))
			}
		}
		if isKind && !v.May {
			rep.violate(mkViolation("C13", "detect-reports-malformed-"+v.K, raw, v.L, "Detect reports "+m.String()))
		}
		if n%40009 == 1 {
			rep.sample(map[string]any{"kind": v.K, "bytes": fmt.Sprintf("%q", raw), "limit": v.L, "model_accepts": v.Acc, "must": v.Must, "may": v.May, "result": m.String()})
		}
	}
	mimetype.SetLimit(3072)
	rep.Evaluations = 2 * n
	rep.Nontrivial = must
	rep.Extra["vectors"] = n
	rep.Extra["must_accept_vectors"] = must
	rep.Extra["must_accept_with_cut_inside_file"] = cutInside
	rep.Extra["exempt_higher_priority"] = exempt
	rep.write(*out)
	return 0
}
