package main

import (
	"encoding/binary"
	stdjson "encoding/json"
	"flag"
	"fmt"
	"os"

	"github.com/gabriel-vasile/mimetype"
)

// boundsvec (C01) concretises the (length, field) tuples of MC_Bounds.tla into headers of
// exactly that length and runs them through the real detector and Detect.

type boundsT struct {
	W   string `json:"w"`
	Len int    `json:"len"`
	A   int64  `json:"a"`
	B   int64  `json:"b"`
	F   bool   `json:"f"`
}
type boundsVec struct {
	T  boundsT `json:"t"`
	OK bool    `json:"ok"`
}

const scaledM = 65536

func toReal(v int64) uint32 {
	switch {
	case v >= scaledM-1000:
		return uint32(v + (1 << 32) - scaledM)
	case v >= scaledM/2-2 && v <= scaledM/2+2:
		return uint32(v + (1 << 31) - scaledM/2)
	}
	return uint32(v)
}

// safeCall runs f and reports whether it returned normally.
func safeCall(f func() bool) (ret bool, verdict bool, panicMsg string) {
	defer func() {
		if r := recover(); r != nil {
			ret, panicMsg = false, fmt.Sprint(r)
		}
	}()
	v := f()
	return true, v, ""
}

func put(b []byte, off int, s []byte) bool {
	if off < 0 || off+len(s) > len(b) {
		return false
	}
	copy(b[off:], s)
	return true
}

func init() { cmds["boundsvec"] = boundsvecMain }

func boundsvecMain(args []string) int {
	fs := flag.NewFlagSet("boundsvec", flag.ExitOnError)
	in := fs.String("in", "", "TLC log")
	out := fs.String("out", "", "report")
	fs.Parse(args)
	rep := newReport("boundsvec")
	det := func(mime, ext string) func([]byte, uint32) bool {
		n := findNode(mime, ext)
		if n == nil {
			fmt.Fprintln(os.Stderr, "node not found", mime)
			os.Exit(2)
		}
		return mimetype.VerifDetector(n)
	}
	crx := det("application/x-chrome-extension", ".crx")
	msi := det("application/x-ms-installer", ".msi")
	mkv := det("video/x-matroska", ".mkv")
	jar := det("application/jar", ".jar")
	apk := det("application/vnd.android.package-archive", ".apk")
	docx := det("application/vnd.openxmlformats-officedocument.wordprocessingml.document", ".docx")
	msiClsid := []byte{0x84, 0x10, 0x0C, 0x00, 0x00, 0x00, 0x00, 0x00, 0xC0, 0x00, 0x00, 0x00, 0x00, 0x00, 0x00, 0x46}
	mimetype.SetLimit(0)
	var n, accepted, skipped int64
	err := tlcVectorLines(*in, func(b []byte) {
		var v boundsVec
		if err := stdjson.Unmarshal(b, &v); err != nil {
			fmt.Fprintln(os.Stderr, "bad vector", err)
			os.Exit(2)
		}
		t := v.T
		raw := make([]byte, t.Len)
		var dets []func([]byte, uint32) bool
		cmpModel := true
		switch t.W {
		case "crx":
			full := make([]byte, 16)
			copy(full, "Cr24\x03\x00\x00\x00")
			binary.LittleEndian.PutUint32(full[8:], toReal(t.A))
			binary.LittleEndian.PutUint32(full[12:], toReal(t.B))
			copy(raw, full)
			if t.F {
				zo := uint32(16) + toReal(t.A) + toReal(t.B)
				if int64(zo)+4 <= int64(len(raw)) && zo >= 16 {
					put(raw, int(zo), []byte("PK\x03\x04"))
				} else {
					cmpModel = !v.OK // the signature does not fit: the model's zipAt premise is not realisable
				}
			}
			dets = append(dets, crx)
		case "ole":
			full := make([]byte, 52)
			copy(full, []byte{0xD0, 0xCF, 0x11, 0xE0, 0xA1, 0xB1, 0x1A, 0xE1})
			full[26], full[27] = 0x03, 0x00
			sector := 512
			if t.B == 1 {
				full[26] = 0x04
				sector = 4096
			}
			binary.LittleEndian.PutUint32(full[48:], toReal(t.A))
			copy(raw, full)
			if t.F {
				off := int64(sector)*(1+int64(toReal(t.A))) + 80
				if off+16 <= int64(len(raw)) {
					put(raw, int(off), msiClsid)
				}
			}
			dets = append(dets, msi)
		case "mkv":
			p := int(t.A)
			if p > 0 && p < 4 {
				skipped++
				return
			}
			for i := range raw {
				raw[i] = 0x20
			}
			put(raw, 0, []byte("\x1A\x45\xDF\xA3"))
			if p >= 4 {
				if !put(raw, p, []byte("\x42\x82")) {
					// marker does not fit: same as absent
					if p+1 <= len(raw) && p < len(raw) {
						raw[p] = 0x42
					}
				} else {
					w := int(t.B)
					if p+2 < len(raw) {
						raw[p+2] = byte(0x80 >> (w - 1))
					}
					if t.F {
						put(raw, p+2+w, []byte("matroska"))
					}
				}
			}
			dets = append(dets, mkv)
			if t.F && (p+2+int(t.B)+8 > len(raw)) {
				cmpModel = false // the name does not fit entirely
			}
		case "zip":
			full := make([]byte, 31)
			copy(full, "PK\x03\x04\x14\x00\x00\x00\x00\x00")
			binary.LittleEndian.PutUint32(full[18:], toReal(t.A))
			full[30] = 'x'
			copy(raw, full)
			dets = append(dets, jar, apk, docx)
		}
		raw = exact(raw)
		for di, d := range dets {
			d := d
			ret, verdict, msg := safeCall(func() bool { return d(raw, 0) })
			n++
			if !ret {
				rep.violate(mkViolation("C01", "panic-in-detector-"+t.W, raw, 0, fmt.Sprintf("tuple %+v: %s", t, msg)))
				continue
			}
			if verdict {
				accepted++
			}
			if di == 0 && cmpModel && verdict != v.OK {
				rep.drift(fmt.Sprintf("%s tuple %+v: real %v, model %v", t.W, t, verdict, v.OK))
			}
		}
		ret, _, msg := safeCall(func() bool { return mimetype.Detect(raw) != nil })
		n++
		if !ret {
			rep.violate(mkViolation("C01", "panic-in-detect-"+t.W, raw, 0, fmt.Sprintf("tuple %+v: %s", t, msg)))
		}
		if n%20011 == 1 {
			rep.sample(map[string]any{"walker": t.W, "len": t.Len, "field_a": toReal(t.A), "field_b": toReal(t.B), "model_verdict": v.OK})
		}
	})
	if err != nil || n == 0 {
		fmt.Fprintln(os.Stderr, "no vectors", err)
		return 2
	}
	mimetype.SetLimit(3072)
	rep.Evaluations = n
	rep.Nontrivial = accepted
	rep.Extra["calls"] = n
	rep.Extra["accepted_by_detector"] = accepted
	rep.Extra["skipped_unrealisable"] = skipped
	rep.write(*out)
	return 0
}
