package main

import (
	"bytes"
	"context"
	stdjson "encoding/json"
	"flag"
	"fmt"
	"os"
	"os/exec"
	"runtime"
	"strings"
	"sync"
	"time"

	"github.com/gabriel-vasile/mimetype"
)

// clonehist replays the histories of CloneHist.tla. Package-level state (caches a change
// may introduce) cannot be reset, so every history runs in a FRESH child process
// (clonehist -one '<json>'); the parent only distributes histories and merges reports.
// On every detection result the shape clauses of C02 are evaluated; the expected chain of
// the specification is compared too (mismatch after an extension of a copy = drift, the
// statement does not say what such an extension does; mismatch in a history without one =
// the result depends on history, reported against C03).

type chOp struct {
	Op     string   `json:"op"`
	Cls    string   `json:"cls"`
	Chain  []string `json:"chain"`
	Params bool     `json:"params"`
}

func init() { cmds["clonehist"] = clonehistMain }

var chNodes = map[string][2]string{
	"root": {"application/octet-stream", ""}, "txt": {"text/plain", ".txt"}, "json": {"application/json", ".json"},
	"har": {"application/json", ".har"}, "geo": {"application/geo+json", ".geojson"}, "gltf": {"model/gltf+json", ".gltf"},
	"html": {"text/html", ".html"}, "xml": {"text/xml", ".xml"}, "ole": {"application/x-ole-storage", ""},
	"aaf": {"application/octet-stream", ".aaf"}, "msi": {"application/x-ms-installer", ".msi"}, "zip": {"application/zip", ".zip"},
	"png": {"image/png", ".png"}, "qt": {"video/quicktime", ".mov"}, "mqv": {"video/quicktime", ".mqv"}, "mp4": {"video/mp4", ".mp4"},
}

func chSamples(corpus string) map[string][]byte {
	names, data := loadCorpus(corpus)
	by := map[string][]byte{}
	for i, n := range names {
		by[n] = data[i]
	}
	aaf := append([]byte{0xD0, 0xCF, 0x11, 0xE0, 0xA1, 0xB1, 0x1A, 0xE1, 0x41, 0x41, 0x46, 0x42, 0x0D, 0x00, 0x4F, 0x4D}, make([]byte, 48)...)
	aaf[30] = 0x09
	return map[string][]byte{
		"txt":  []byte("caf\xe9 cr\xe8me, plain latin-1 text\n"),
		"json": []byte(`{"a":[1,2,{"b":null}]}`),
		"har":  by["har"], "geo": by["geojson"], "gltf": by["gltf1"],
		"html": []byte(`<!DOCTYPE html><html><head><meta charset="iso-8859-2"><title>t</title></head><body>x</body></html>`),
		"xml":  []byte(`<?xml version="1.0" encoding="koi8-r"?><note>x</note>`),
		"aaf":  aaf, "msi": by["msi"], "zip": by["zip"], "png": by["png"], "mqv": by["mqv"],
		"qt":  []byte("\x00\x00\x00\x14ftypqt  \x00\x00\x00\x00qt  \x00\x00\x00\x08wide"),
		"mp4": []byte("\x00\x00\x00\x14ftypisom\x00\x00\x02\x00isomiso2"),
	}
}

func clonehistOne(hist []chOp, corpus string, rep *Report) {
	samples := chSamples(corpus)
	registered := registeredSet()
	extCopySeen := false
	for step, op := range hist {
		switch op.Op {
		case "detect":
			in := samples[op.Cls]
			if in == nil {
				fmt.Fprintln(os.Stderr, "no sample for", op.Cls)
				os.Exit(2)
			}
			var m *mimetype.MIME
			var err error
			if step%2 == 0 {
				m = mimetype.Detect(exact(in))
			} else {
				m, err = mimetype.DetectReader(bytes.NewReader(in))
			}
			rep.Evaluations++
			c02Check(rep, m, err, in, 3072, registered)
			got := chain(m)
			bare := make([]string, len(got))
			for i, g := range got {
				bare[i] = baseType(g)
			}
			if strings.Join(bare, "|") != strings.Join(op.Chain, "|") {
				msg := fmt.Sprintf("history %s step %d: chain %v, specification %v", histString(hist), step+1, got, op.Chain)
				if extCopySeen {
					rep.drift(msg)
				} else {
					rep.violate(Violation{Property: "C03", Kind: "chain-depends-on-history", Text: histString(hist), Limit: 3072, Detail: msg, Key: "C03|clonehist|" + histString(hist)})
				}
			}
			// whatever the history: every reported ancestor is a format whose signature accepts this input (C03)
			for p, i := m, 0; p != nil && i < 32; p, i = p.Parent(), i+1 {
				node := findNode(baseType(p.String()), p.Extension())
				if node == nil || node == mimetype.VerifRoot() {
					continue
				}
				if det := mimetype.VerifDetector(node); det != nil && !det(exact(in), 3072) {
					rep.violate(Violation{Property: "C03", Kind: "ancestor-does-not-match", Text: histString(hist), Limit: 3072,
						Detail: fmt.Sprintf("history %s step %d: chain %v contains %s%s whose signature rejects the input", histString(hist), step+1, got, p.String(), p.Extension()), Key: "C03|clonehist-anc|" + histString(hist)})
					break
				}
			}
			if op.Params != strings.Contains(m.String(), ";") && !extCopySeen {
				rep.drift(fmt.Sprintf("history %s step %d: result %s, specification params=%v", histString(hist), step+1, m, op.Params))
			}
			if strings.Contains(m.String(), ";") {
				rep.Nontrivial++
			}
		case "extcopy":
			m := mimetype.Detect(exact(samples[op.Cls]))
			name := "verif/ext-copy-" + op.Cls
			m.Extend(func([]byte, uint32) bool { return true }, name, ".vxc")
			registered[name] = true
			extCopySeen = true
		case "extchain":
			n := findNode(chNodes[op.Cls][0], chNodes[op.Cls][1])
			if n == nil {
				fmt.Fprintln(os.Stderr, "node not found", op.Cls)
				os.Exit(2)
			}
			for i := 1; i <= 12; i++ { // each one registered as a child of the previous one
				name := fmt.Sprintf("verif/chain-%s-%d", op.Cls, i)
				n.Extend(func([]byte, uint32) bool { return true }, name, ".vxc")
				registered[name] = true
				n = mimetype.Lookup(name)
				if n == nil {
					rep.violate(Violation{Property: "C14", Kind: "lookup-after-extend", Text: histString(hist), Detail: "Lookup(" + name + ") = nil right after Extend", Key: "C14|clonehist|" + name})
					return
				}
			}
		case "extnode":
			n := findNode(chNodes[op.Cls][0], chNodes[op.Cls][1])
			if n == nil {
				fmt.Fprintln(os.Stderr, "node not found", op.Cls)
				os.Exit(2)
			}
			name := "verif/ext-" + op.Cls
			n.Extend(func([]byte, uint32) bool { return true }, name, ".vxn")
			registered[name] = true
		}
	}
}

func histString(h []chOp) string {
	var p []string
	for _, o := range h {
		p = append(p, o.Op+"("+o.Cls+")")
	}
	return strings.Join(p, " ")
}

func clonehistMain(args []string) int {
	fs := flag.NewFlagSet("clonehist", flag.ExitOnError)
	in := fs.String("in", "", "TLC log with the histories")
	out := fs.String("out", "", "report")
	corpus := fs.String("corpus", "", "corpus directory")
	one := fs.String("one", "", "a single history (JSON), run in this process; the report goes to stdout")
	fs.Parse(args)
	if *one != "" {
		var h []chOp
		if err := stdjson.Unmarshal([]byte(*one), &h); err != nil {
			fmt.Fprintln(os.Stderr, err)
			return 2
		}
		rep := newReport("clonehist-one")
		clonehistOne(h, *corpus, rep)
		b, _ := stdjson.Marshal(rep)
		fmt.Println(string(b))
		return 0
	}
	rep := newReport("clonehist")
	var hists [][]byte
	if err := tlcArrayLines(*in, func(raw []byte) { hists = append(hists, append([]byte(nil), raw...)) }); err != nil {
		fmt.Fprintln(os.Stderr, err)
		return 2
	}
	if len(hists) == 0 {
		fmt.Fprintln(os.Stderr, "no histories")
		return 2
	}
	self, _ := os.Executable()
	var wg sync.WaitGroup
	work := make(chan []byte)
	var mu sync.Mutex
	infra := 0
	for w := 0; w < runtime.NumCPU(); w++ {
		wg.Add(1)
		go func() {
			defer wg.Done()
			for h := range work {
				cctx, cancel := context.WithTimeout(context.Background(), 300*time.Second)
				cmd := exec.CommandContext(cctx, self, "clonehist", "-one", string(h), "-corpus", *corpus)
				var stderr bytes.Buffer
				cmd.Stderr = &stderr
				o, err := cmd.Output()
				cancel()
				var r Report
				if err != nil || stdjson.Unmarshal(bytes.TrimSpace(o), &r) != nil {
					var hh []chOp
					stdjson.Unmarshal(h, &hh)
					mu.Lock()
					if ee, ok := err.(*exec.ExitError); ok && ee.ExitCode() == 2 && !strings.Contains(stderr.String(), "goroutine ") {
						infra++
						fmt.Fprintln(os.Stderr, "child:", stderr.String())
					} else {
						// the process died inside the code under test (panic, stack overflow, endless chain)
						rep.NViol["C01"]++
						rep.Violations = append(rep.Violations, Violation{Property: "C01", Kind: "history-crashes", Text: histString(hh), Detail: lastLines(stderr.String(), 6), Key: "C01|clonehist|" + histString(hh)})
					}
					mu.Unlock()
					continue
				}
				mu.Lock()
				rep.Evaluations += r.Evaluations
				rep.Nontrivial += r.Nontrivial
				rep.Drift += r.Drift
				if len(rep.DriftSample) < 20 {
					rep.DriftSample = append(rep.DriftSample, r.DriftSample...)
				}
				for k, v := range r.NViol {
					rep.NViol[k] += v
				}
				if len(rep.Violations) < maxKeptViolations {
					for _, v := range r.Violations {
						var hh []chOp
						stdjson.Unmarshal(h, &hh)
						v.Detail = "after " + histString(hh) + ": " + v.Detail
						rep.Violations = append(rep.Violations, v)
					}
				}
				mu.Unlock()
			}
		}()
	}
	for _, h := range hists {
		work <- h
	}
	close(work)
	wg.Wait()
	if infra > 0 {
		return 2
	}
	rep.Extra["histories"] = len(hists)
	rep.write(*out)
	return 0
}

func lastLines(s string, n int) string {
	l := strings.Split(strings.TrimSpace(s), "\n")
	if len(l) > n {
		l = l[:n]
	}
	return strings.Join(l, " / ")
}
