package main

import (
	"bytes"
	"encoding/hex"
	stdjson "encoding/json"
	"flag"
	"fmt"
	"os"

	"github.com/gabriel-vasile/mimetype"
)

// replayone re-executes the observation recorded in a replay file (input bytes + limit)
// on the current tree and prints what the real code does now.

func init() { cmds["replayone"] = replayoneMain }

func replayoneMain(args []string) int {
	fs := flag.NewFlagSet("replayone", flag.ExitOnError)
	file := fs.String("file", "", "replay file written by vcheck")
	fs.Parse(args)
	b, err := os.ReadFile(*file)
	if err != nil {
		fmt.Fprintln(os.Stderr, err)
		return 2
	}
	var v struct {
		Property string `json:"property"`
		Kind     string `json:"kind"`
		Hex      string `json:"input_hex"`
		Text     string `json:"input_text"`
		Limit    *int64 `json:"limit"`
		Detail   string `json:"detail"`
	}
	if err := stdjson.Unmarshal(b, &v); err != nil {
		fmt.Fprintln(os.Stderr, err)
		return 2
	}
	fmt.Printf("property %s, kind %s\nrecorded: %s\n", v.Property, v.Kind, v.Detail)
	if v.Hex == "" {
		fmt.Printf("case: %s\n(this replay file describes a history / schedule / trace rather than a single input; re-run `bin/vcheck %s` to re-execute it)\n", v.Text, v.Property)
		return 0
	}
	raw, err := hex.DecodeString(v.Hex)
	if err != nil {
		fmt.Fprintln(os.Stderr, err)
		return 2
	}
	lim := int64(3072)
	if v.Limit != nil {
		lim = *v.Limit
	}
	mimetype.SetLimit(uint32(lim))
	m := mimetype.Detect(exact(raw))
	fmt.Printf("input %q (len %d), limit %d\nDetect now: %v extension %q chain %v\n", raw, len(raw), lim, m, m.Extension(), chain(m))
	mr, rerr := mimetype.DetectReader(bytes.NewReader(raw))
	fmt.Printf("DetectReader now: %v err %v\n", mr, rerr)
	hdr := raw
	if lim > 0 && int64(len(hdr)) > lim {
		hdr = hdr[:lim]
	}
	p, i, f, q := mimetype.VerifJSONParse("json", hdr)
	fmt.Printf("json.Parse(header): parsed %d inspected %d first %d qsat %v; charset.FromPlain: %q\n", p, i, f, q, mimetype.VerifCharsetFromPlain(hdr))
	for _, n := range mimetype.VerifTree() {
		if n.Parent != nil && mimetype.VerifDetector(n.M)(exact(hdr), uint32(lim)) {
			fmt.Printf("  detector %s%s accepts the header\n", n.Mime, n.Ext)
		}
	}
	return 0
}
