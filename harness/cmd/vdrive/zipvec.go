package main

import (
	"archive/zip"
	"bytes"
	stdjson "encoding/json"
	"flag"
	"fmt"
	"hash/crc32"
	"math/rand"
	"os"
	"strings"

	"github.com/gabriel-vasile/mimetype"
)

// zipvec (C19) builds the abstract archives of MC_Zip.tla with archive/zip and runs them
// through Detect; the entry list is read back with archive/zip (the oracle for "entry
// names").

var zipNames = map[string]string{
	"ct": "[Content_Types].xml", "rels": "_rels/.rels", "docprops": "docProps/app.xml", "customxml": "customXml/item1.xml",
	"trash": "[trash]/0000.dat", "word": "word/document.xml", "xl": "xl/workbook.xml", "ppt": "ppt/presentation.xml",
	"manifest": "META-INF/MANIFEST.MF", "android": "AndroidManifest.xml", "dex": "classes.dex", "mimetype": "mimetype",
	"nm_word": "word", "nm_Word": "Word/x", "nm_xl": "xl.txt", "nm_manifest": "XMETA-INF/MANIFEST.MF", "nm_mimetypes": "mimetypes",
	"u1": "a", "u12": "dir/file.txt", "u40": "some/longer/path/to/a/resource-file.json", "u200": "",
}

func init() {
	zipNames["u200"] = strings.Repeat("d/", 80) + "file-name.x"
	zipNames["u200"] = zipNames["u200"] + strings.Repeat("y", 200-len(zipNames["u200"]))
	cmds["zipvec"] = zipvecMain
}

type zipEntry struct {
	name         string
	csize, extra int
}

// buildZip writes the archive. deflate: bodies are incompressible so that the compressed
// size is exactly csize (stored deflate block: len+5).
func buildZip(entries []zipEntry, desc bool, deflate bool, rng *rand.Rand, firstBody []byte) ([]byte, error) {
	var buf bytes.Buffer
	w := zip.NewWriter(&buf)
	for i, e := range entries {
		method := zip.Store
		body := bytes.Repeat([]byte("x"), e.csize)
		if e.csize > 0 && rng.Intn(2) == 0 {
			body[len(body)-1] = 'P' // a stored body may end in the first byte of the next signature
		}
		if i == 0 && firstBody != nil {
			body = firstBody
		}
		var comp []byte
		if deflate && e.csize >= 5 && !(i == 0 && firstBody != nil) {
			method = zip.Deflate
			// either a highly compressible body (uncompressed size far larger than csize) or an
			// incompressible one (stored deflate block: len+5), both with compressed size == csize
			body = nil
			if rng.Intn(2) == 0 && !desc { // with a descriptor archive/zip compresses by itself (other level): incompressible only
				body = compressibleBody(e.csize)
			}
			if body == nil {
				body = make([]byte, e.csize-5)
				rng.Read(body)
			}
			var cb bytes.Buffer
			fw := sharedFlate(&cb)
			fw.Write(body)
			fw.Close()
			comp = cb.Bytes()
			if len(comp) != e.csize {
				// could not hit the size exactly: fall back to store
				method = zip.Store
				body = bytes.Repeat([]byte("x"), e.csize)
				comp = nil
			}
		}
		if bytes.Contains(body, []byte("PK\x03\x04")) || bytes.Contains(comp, []byte("PK\x03\x04")) {
			return nil, fmt.Errorf("body contains a zip signature")
		}
		fh := &zip.FileHeader{Name: e.name, Method: method}
		if e.extra > 0 {
			x := make([]byte, e.extra)
			x[0], x[1] = 0xFE, 0xCA
			x[2], x[3] = byte(e.extra-4), 0
			fh.Extra = x
		}
		if desc {
			fw, err := w.CreateHeader(fh)
			if err != nil {
				return nil, err
			}
			fw.Write(body)
		} else {
			fh.CRC32 = crc32.ChecksumIEEE(body)
			fh.UncompressedSize64 = uint64(len(body))
			if method == zip.Store {
				fh.CompressedSize64 = uint64(len(body))
				comp = body
			} else {
				fh.CompressedSize64 = uint64(len(comp))
			}
			fw, err := w.CreateRaw(fh)
			if err != nil {
				return nil, err
			}
			fw.Write(comp)
		}
	}
	if err := w.Close(); err != nil {
		return nil, err
	}
	return buf.Bytes(), nil
}

var compressibleCache = map[int][]byte{}

// compressibleBody returns repetitive text whose deflated size is exactly target (nil if no
// length up to 64 KiB hits it).
func compressibleBody(target int) []byte {
	if b, ok := compressibleCache[target]; ok {
		return b
	}
	var found []byte
	for _, pat := range []string{"<w:p><w:r><w:t>lorem ipsum</w:t></w:r></w:p>\n", "ab", "0123456789"} {
		for l := 16; l <= 65536 && found == nil; l += 1 + l/64 {
			body := bytes.Repeat([]byte(pat), l/len(pat)+1)[:l]
			var cb bytes.Buffer
			fw := sharedFlate(&cb)
			fw.Write(body)
			fw.Close()
			if cb.Len() == target && l > 4*target {
				found = body
			}
			if cb.Len() > target+64 {
				break
			}
		}
		if found != nil {
			break
		}
	}
	compressibleCache[target] = found
	return found
}

func zipClass(m *mimetype.MIME) string {
	switch baseType(m.String()) {
	case "application/vnd.openxmlformats-officedocument.spreadsheetml.sheet":
		return "xlsx"
	case "application/vnd.openxmlformats-officedocument.wordprocessingml.document":
		return "docx"
	case "application/vnd.openxmlformats-officedocument.presentationml.presentation":
		return "pptx"
	case "application/jar":
		return "jar"
	case "application/vnd.android.package-archive":
		return "apk"
	case "application/zip":
		return "zip"
	}
	return "other:" + m.String()
}

type zipVec struct {
	A   [][]stdjson.RawMessage `json:"a"`
	D   int                    `json:"d"`
	M   string                 `json:"m"`
	OK  []string               `json:"ok"`
	Len int                    `json:"len"`
}

func zipvecMain(args []string) int {
	fs := flag.NewFlagSet("zipvec", flag.ExitOnError)
	in := fs.String("in", "", "TLC log")
	out := fs.String("out", "", "report")
	seed := fs.Int64("seed", 1, "seed")
	noODF := fs.Bool("noodf", false, "skip the mimetype-first archives")
	fs.Parse(args)
	rep := newReport("zipvec")
	rng := rand.New(rand.NewSource(*seed))
	mimetype.SetLimit(0)
	var n, positive, deflated int64
	classes := map[string]int{}
	// callers reuse read buffers: the same backing array successively holds different archives of
	// the same length (often with identical fixed header parts: no time stamps, sizes in the
	// descriptor); the verdict must be the one obtained on a private copy
	type pendingReuse struct {
		raw         []byte
		fresh, what string
	}
	pending := map[int][]pendingReuse{}
	var reused, reusedSameHeader int64
	reuseCheck := func(raw []byte, fresh string, what string) {
		pending[len(raw)] = append(pending[len(raw)], pendingReuse{raw, fresh, what})
	}
	// second pass, after all private-copy detections: archives of one length follow each other in ONE
	// buffer with no other detection in between (what a caller with a pooled read buffer does)
	runReuse := func() {
		for l, list := range pending {
			buf := make([]byte, l)
			for i, p := range list {
				if i > 0 {
					reused++
					if l >= 30 && bytes.Equal(buf[:30], p.raw[:30]) {
						reusedSameHeader++
					}
				}
				copy(buf, p.raw)
				if got := mimetype.Detect(buf).String(); got != p.fresh {
					rep.violate(Violation{Property: "C19", Kind: "reused-buffer", Text: p.what, Detail: fmt.Sprintf("in a reused buffer (previous occupant: %s) Detect reports %s, on a private copy %s", list[max(i-1, 0)].what, got, p.fresh), Key: "C19|reuse|" + p.what})
				}
			}
		}
	}
	err := tlcVectorLines(*in, func(b []byte) {
		var v zipVec
		if err := stdjson.Unmarshal(b, &v); err != nil {
			fmt.Fprintln(os.Stderr, "bad vector", err)
			os.Exit(2)
		}
		var entries []zipEntry
		var names []string
		for _, e := range v.A {
			var ze zipEntry
			var cls string
			stdjson.Unmarshal(e[0], &cls)
			stdjson.Unmarshal(e[1], &ze.csize)
			stdjson.Unmarshal(e[2], &ze.extra)
			ze.name = zipNames[cls]
			entries = append(entries, ze)
			names = append(names, ze.name)
		}
		deflate := rng.Intn(2) == 0
		raw, err := buildZip(entries, v.D > 0, deflate, rng, nil)
		if err != nil {
			fmt.Fprintln(os.Stderr, "cannot build archive:", err)
			os.Exit(2)
		}
		if deflate {
			deflated++
		}
		// oracle: entry names as a standard reader sees them
		zr, err := zip.NewReader(bytes.NewReader(raw), int64(len(raw)))
		if err != nil || len(zr.File) != len(names) {
			fmt.Fprintln(os.Stderr, "archive/zip cannot read back the archive:", err)
			os.Exit(2)
		}
		for i, f := range zr.File {
			if f.Name != names[i] {
				fmt.Fprintln(os.Stderr, "entry name mismatch", f.Name, names[i])
				os.Exit(2)
			}
		}
		if len(raw) != v.Len {
			rep.drift(fmt.Sprintf("archive %v desc=%d: real length %d, layout arithmetic of the model %d", names, v.D, len(raw), v.Len))
		}
		m := mimetype.Detect(exact(raw))
		n++
		cls := zipClass(m)
		key0 := fmt.Sprintf("names=%v sizes=%v desc=%d deflate=%v", names, entries, v.D, deflate)
		reuseCheck(raw, m.String(), key0)
		classes[cls]++
		key := fmt.Sprintf("names=%v sizes=%v desc=%d deflate=%v", names, entries, v.D, deflate)
		if !contains(v.OK, cls) {
			rep.violate(Violation{Property: "C19", Kind: "zip-class", Text: key, Detail: fmt.Sprintf("Detect reports %s (%s); the statement allows %v", m, cls, v.OK), Key: fmt.Sprintf("C19|class|%v|%v|%d", names, entries, v.D)})
		}
		if cls != v.M {
			rep.drift(fmt.Sprintf("%s: real %s, model %s", key, cls, v.M))
		}
		if cls != "zip" && !strings.HasPrefix(cls, "other") {
			if p := m.Parent(); p == nil || p.String() != "application/zip" {
				rep.violate(Violation{Property: "C19", Kind: "zip-parent", Text: key, Detail: fmt.Sprintf("%s has parent %v", m, p), Key: "C19|parent|" + cls})
			}
		}
		if len(v.OK) == 1 && v.OK[0] != "zip" {
			positive++
		}
		if n%9973 == 1 {
			rep.sample(map[string]any{"entries": names, "descriptor": v.D, "result": m.String(), "allowed": v.OK})
		}
	})
	if err != nil || n == 0 {
		fmt.Fprintln(os.Stderr, "no vectors", err)
		return 2
	}
	// first entry = stored `mimetype` naming an OpenDocument / EPUB type
	odf := []string{"application/epub+zip", "application/vnd.oasis.opendocument.text", "application/vnd.oasis.opendocument.text-template",
		"application/vnd.oasis.opendocument.spreadsheet", "application/vnd.oasis.opendocument.spreadsheet-template",
		"application/vnd.oasis.opendocument.presentation", "application/vnd.oasis.opendocument.presentation-template",
		"application/vnd.oasis.opendocument.graphics", "application/vnd.oasis.opendocument.graphics-template",
		"application/vnd.oasis.opendocument.formula", "application/vnd.oasis.opendocument.chart", "application/vnd.sun.xml.calc"}
	var odfN int64
	for _, t := range odf {
		if *noODF {
			break
		}
		for _, rest := range [][]zipEntry{{}, {{"META-INF/manifest.xml", 40, 0}, {"content.xml", 300, 0}}, {{"META-INF/MANIFEST.MF", 5, 0}}, {{"word/document.xml", 5, 0}, {"[Content_Types].xml", 5, 0}},
			{{"content.xml", 300, 0}, {"META-INF/MANIFEST.MF", 60, 0}}, {{"content.xml", 120, 0}, {"styles.xml", 80, 0}, {"classes.dex", 60, 0}}, {{"AndroidManifest.xml", 20, 0}}} {
			for _, desc := range []bool{false, true} { // "with and without data descriptors": a streaming writer leaves the sizes of the stored entry to the descriptor
				entries := append([]zipEntry{{"mimetype", len(t), 0}}, rest...)
				raw, err := buildZip(entries, desc, false, rng, []byte(t))
				if err != nil {
					fmt.Fprintln(os.Stderr, err)
					return 2
				}
				m := mimetype.Detect(exact(raw))
				n++
				odfN++
				reuseCheck(raw, m.String(), fmt.Sprintf("mimetype=%s rest=%v desc=%v", t, rest, desc))
				if baseType(m.String()) != t {
					rep.violate(Violation{Property: "C19", Kind: "mimetype-first", Text: fmt.Sprintf("mimetype=%s rest=%v desc=%v", t, rest, desc), Detail: "Detect reports " + m.String(), Key: "C19|odf|" + t + fmt.Sprint(len(rest), desc)})
				}
				for p := m.Parent(); p != nil; p = p.Parent() {
					if p.Parent() != nil && p.Parent().Parent() == nil && p.String() != "application/zip" {
						rep.violate(Violation{Property: "C19", Kind: "mimetype-first-parent", Text: t, Detail: "root child is " + p.String(), Key: "C19|odfparent|" + t})
					}
				}
			}
		}
	}
	runReuse()
	if !*noODF {
		// first entry META-INF/MANIFEST.MF: JAR, whatever follows beyond the sixth entry
		for ci, rest := range [][]string{
			{"a.class", "META-INF/CERT.SF", "META-INF/CERT.RSA", "b.class", "c.class", "classes.dex"},
			{"META-INF/services/x", "META-INF/LICENSE", "META-INF/NOTICE", "META-INF/maven/p.xml", "d.class", "AndroidManifest.xml", "resources.arsc"},
			{"a.class", "b.class", "c.class", "d.class", "e.class", "word/document.xml", "classes.dex"},
		} {
			for _, desc := range []bool{false, true} {
				entries := []zipEntry{{"META-INF/MANIFEST.MF", 40, 0}}
				for _, nm := range rest {
					entries = append(entries, zipEntry{nm, 20, 0})
				}
				raw, err := buildZip(entries, desc, false, rng, nil)
				if err != nil {
					fmt.Fprintln(os.Stderr, err)
					return 2
				}
				m := mimetype.Detect(exact(raw))
				n++
				if zipClass(m) != "jar" {
					rep.violate(Violation{Property: "C19", Kind: "manifest-first", Text: fmt.Sprintf("META-INF/MANIFEST.MF, %v desc=%v", rest, desc), Detail: "Detect reports " + m.String(), Key: fmt.Sprintf("C19|jar|%d|%v", ci, desc)})
				}
			}
		}
	}
	mimetype.SetLimit(3072)
	rep.Evaluations = n
	rep.Nontrivial = positive + odfN
	rep.Extra["archives"] = n
	rep.Extra["archives_with_a_single_allowed_non_zip_class"] = positive
	rep.Extra["mimetype_first_archives"] = odfN
	rep.Extra["deflated_archives"] = deflated
	rep.Extra["detections_in_a_reused_buffer"] = reused
	rep.Extra["reused_with_identical_first_header"] = reusedSameHeader
	rep.Extra["classes"] = classes
	rep.write(*out)
	return 0
}
