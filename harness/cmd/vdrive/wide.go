package main

import (
	"bufio"
	"bytes"
	stdjson "encoding/json"
	"flag"
	"fmt"
	"os"
	"strings"

	"github.com/gabriel-vasile/mimetype"
)

// wide builds the run-length-described wide documents of TraceWide.tla, runs them through
// Detect / DetectReader at the limits that matter and logs one record per run.

func init() { cmds["wide"] = wideMain }

var wideOpen = map[string]string{"arr": "[", "objs": "[", "members": "{"}
var wideUnit = map[string]string{"arr": "1,", "objs": `{"a":1},`, "members": `"k":1,`}
var wideTail = map[string]map[string]string{
	"arr":     {"ok": "1]", "dcomma": ",]", "nocomma": "1 1]", "open": "1"},
	"objs":    {"ok": "{}]", "dcomma": ",]", "nocomma": "{} {}]", "open": "{}"},
	"members": {"ok": `"z":1}`, "dcomma": ",}", "nocomma": `"y":1 "z":1}`, "open": `"z":1`, "geo": `"type":"Feature"}`, "gltf": `"asset":{"version":"2.0"}}`},
}

func wideMain(args []string) int {
	fs := flag.NewFlagSet("wide", flag.ExitOnError)
	outp := fs.String("trace", "", "trace file")
	report := fs.String("out", "", "report")
	big := fs.Bool("big", false, "also documents of 10^6 elements")
	fs.Parse(args)
	rep := newReport("wide")
	f, err := os.Create(*outp)
	if err != nil {
		fmt.Fprintln(os.Stderr, err)
		return 2
	}
	w := bufio.NewWriterSize(f, 1<<20)
	nodes := loadJSONNodes()
	ns := []int{3, 50, 99, 100, 101, 128, 257, 1000, 1025, 5000, 70000, 200000} // the largest: 0.4 .. 1.6 MB
	if *big {
		ns = append(ns, 1000000)
	}
	var n int64
	for _, shape := range []string{"arr", "objs", "members"} {
		for _, k := range ns {
			for tail, tb := range wideTail[shape] {
				doc := []byte(wideOpen[shape] + strings.Repeat(wideUnit[shape], k) + tb)
				total := len(doc)
				run := 1 + len(wideUnit[shape])*k
				limits := []int{0, total + 1, total, run, 1 + len(wideUnit[shape])*(k/2), run - 1}
				if total > 3072 {
					limits = append(limits, 3072)
				}
				for _, lim := range limits {
					if lim != 0 && lim < 2 {
						continue
					}
					for _, entry := range []string{"Detect", "DetectReader"} {
						mimetype.SetLimit(uint32(lim))
						var m *mimetype.MIME
						if entry == "Detect" {
							m = mimetype.Detect(exact(doc))
						} else {
							var err error
							m, err = mimetype.DetectReader(bytes.NewReader(doc))
							if err != nil {
								fmt.Fprintln(os.Stderr, "reader error", err)
								return 2
							}
						}
						cls, _ := nodes.classOf(m)
						b, _ := stdjson.Marshal(map[string]any{"ev": "wide", "shape": shape, "n": k, "tail": tail, "limit": lim, "entry": entry, "cls": cls, "mime": m.String()})
						w.Write(b)
						w.WriteByte('\n')
						n++
					}
				}
			}
		}
	}
	w.Flush()
	f.Close()
	mimetype.SetLimit(3072)
	rep.Evaluations = n
	rep.Nontrivial = n
	rep.Extra["wide_documents"] = n
	rep.write(*report)
	return 0
}
