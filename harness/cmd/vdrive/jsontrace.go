package main

import (
	"bufio"
	stdjson "encoding/json"
	"flag"
	"fmt"
	"math/rand"
	"os"
	"path/filepath"

	"github.com/gabriel-vasile/mimetype"
)

// trace records for TraceJson.tla

type parseRec struct {
	Ev        string `json:"ev"`
	Q         string `json:"q"`
	Raw       []int  `json:"raw"`
	Parsed    int    `json:"parsed"`
	Inspected int    `json:"inspected"`
	First     int    `json:"first"`
	Qsat      bool   `json:"qsat"`
	Dirty     []any  `json:"dirty"`
	PathLen   int    `json:"pathlen"`
	MaxLvl    int    `json:"maxlvl"`
}

type detectRec struct {
	Ev     string `json:"ev"`
	Raw    []int  `json:"raw"`
	Limit  int64  `json:"limit"`
	InLen  int    `json:"inlen"`
	Cls    string `json:"cls"`
	Exempt bool   `json:"exempt"`
	Mime   string `json:"mime"`
}

func bytes2ints(b []byte) []int {
	out := make([]int, len(b))
	for i, c := range b {
		out[i] = int(c)
	}
	return out
}

// parseCapture collects json.Parse events (single goroutine use).
type parseCapture struct {
	on     bool
	recs   []parseRec
	dirty  []any
	maxlvl int
	dirtyN int // parses that started from a non-fresh pooled state
	total  int
}

func (c *parseCapture) hook(e mimetype.VerifJSONEvent) {
	switch e.Kind {
	case "enter":
		c.dirty = []any{e.IB, e.PathLen, e.First, e.QSat}
		c.maxlvl = 0
		c.total++
		if e.IB != 0 || e.PathLen != 0 || e.First != 0 || e.QSat {
			c.dirtyN++
		}
	case "lvl":
		if e.Lvl > c.maxlvl {
			c.maxlvl = e.Lvl
		}
	case "exit":
		if c.on {
			c.recs = append(c.recs, parseRec{Ev: "parse", Q: e.Query, Raw: bytes2ints(e.Raw), Parsed: e.Parsed,
				Inspected: e.Inspected, First: e.First, Qsat: e.QSat, Dirty: c.dirty, PathLen: e.PathLen, MaxLvl: c.maxlvl})
		}
	}
}

func init() { cmds["jsontrace"] = jsontraceMain }

func jsontraceMain(args []string) int {
	fs := flag.NewFlagSet("jsontrace", flag.ExitOnError)
	outDir := fs.String("outdir", "", "directory for trace shards")
	shards := fs.Int("shards", 16, "number of trace files")
	docs := fs.Int("docs", 300, "documents to generate")
	seed := fs.Int64("seed", 1, "seed")
	maxCuts := fs.Int("maxcuts", 48, "cut points per document (all if the document is shorter)")
	parseEvery := fs.Int("parse-every", 8, "log json.Parse records for one detection in N")
	report := fs.String("out", "", "report path")
	subOnly := fs.Bool("subtype-only", false, "only generate sub-type documents (C10)")
	fs.Parse(args)

	nodes := loadJSONNodes()
	rep := newReport("jsontrace")
	rng := rand.New(rand.NewSource(*seed))
	g := &jsonGen{rng: rng}
	pc := &parseCapture{}
	mimetype.VerifSetJSONHook(pc.hook)

	files := make([]*bufio.Writer, *shards)
	closers := make([]*os.File, *shards)
	for i := range files {
		f, err := os.Create(filepath.Join(*outDir, fmt.Sprintf("json-%02d.ndjson", i)))
		if err != nil {
			fmt.Fprintln(os.Stderr, err)
			return 2
		}
		closers[i] = f
		files[i] = bufio.NewWriterSize(f, 1<<20)
	}
	nrec := make([]int, *shards)
	emit := func(shard int, v any) {
		b, _ := stdjson.Marshal(v)
		files[shard].Write(b)
		files[shard].WriteByte('\n')
		nrec[shard]++
	}

	var detections, ndocs, mutated int64
	classes := map[string]int{}
	shared := make([]byte, 1<<16)
	for d := 0; d < *docs; d++ {
		var doc string
		switch {
		case *subOnly || d%3 == 1:
			doc = g.subtypeDoc()
		case d%7 == 3:
			doc = g.mutate(g.doc())
			mutated++
		default:
			doc = g.doc()
		}
		if len(doc) > 1500 {
			continue
		}
		ndocs++
		shard := d % *shards
		raw := []byte(doc)
		// FIRST detection of this document: whole, in ONE caller-owned buffer that held the previous document
		// a moment ago and will be overwritten by the next one (nothing may keep pointing into it)
		sharedUsed, sharedCls := false, ""
		if len(raw) <= len(shared) {
			for i := range shared[:len(raw)+8] {
				shared[i] = 0
			}
			copy(shared, raw)
			mimetype.SetLimit(0)
			pc.on = false
			var exs bool
			sharedCls, exs = nodes.classOf(mimetype.Detect(shared[:len(raw)]))
			sharedUsed = !exs
			detections++
		}
		// cut points: limits from 1 .. len+1 and 0 (whole)
		limits := []int64{0, int64(len(raw) + 1)}
		if len(raw) <= *maxCuts {
			for c := 1; c <= len(raw); c++ {
				limits = append(limits, int64(c))
			}
		} else {
			for k := 0; k < *maxCuts; k++ {
				limits = append(limits, int64(1+rng.Intn(len(raw))))
			}
		}
		for li, lim := range limits {
			mimetype.SetLimit(uint32(lim))
			pc.on = (int(detections)+li)%*parseEvery == 0
			pc.recs = pc.recs[:0]
			in := exact(raw)
			m := mimetype.Detect(in)
			detections++
			hdr := raw
			if lim > 0 && int64(len(raw)) > lim {
				hdr = raw[:lim]
			}
			cls, ex := nodes.classOf(m)
			classes[cls]++
			for _, p := range pc.recs {
				emit(shard, p)
			}
			emit(shard, detectRec{Ev: "detect", Raw: bytes2ints(hdr), Limit: lim, InLen: len(raw), Cls: cls, Exempt: ex, Mime: m.String()})
			if string(in) != doc {
				rep.violate(mkViolation("C04", "caller-buffer-modified", raw, lim, "Detect modified its input"))
			}
		}
		// the class seen in the reused buffer (taken FIRST, see above) against the class on a private copy
		if sharedUsed {
			mimetype.SetLimit(0)
			pc.on = false
			c1, ex1 := nodes.classOf(mimetype.Detect(exact(raw)))
			detections++
			if !ex1 && c1 != sharedCls {
				prop := "C10"
				if sharedCls == "" {
					prop = "C08"
				} else if c1 == "" {
					prop = "C09"
				}
				rep.violate(mkViolation(prop, "class-differs-in-a-reused-buffer", raw, 0, fmt.Sprintf("class %q on a private copy, %q in a buffer that held another document before", c1, sharedCls)))
			}
		}
		if d < 6 {
			rep.sample(map[string]any{"doc": doc, "limits": len(limits)})
		}
	}
	mimetype.SetLimit(3072)
	mimetype.VerifSetJSONHook(nil)
	total := 0
	for i := range files {
		files[i].Flush()
		closers[i].Close()
		total += nrec[i]
	}
	rep.Evaluations = detections
	rep.Nontrivial = ndocs
	rep.Extra["documents"] = ndocs
	rep.Extra["mutated_documents"] = mutated
	rep.Extra["trace_records"] = total
	rep.Extra["records_per_shard"] = nrec
	rep.Extra["classes"] = classes
	rep.Extra["parses_total"] = pc.total
	rep.Extra["parses_started_dirty"] = pc.dirtyN
	rep.write(*report)
	return 0
}
