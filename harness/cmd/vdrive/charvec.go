package main

import (
	"bytes"
	stdjson "encoding/json"
	"flag"
	"fmt"
	"math/rand"
	"mime"
	"os"
	"sort"
	"unicode/utf8"

	"github.com/gabriel-vasile/mimetype"
)

// charvec replays the vectors of MC_Charset.tla on charset.FromPlain, magic.Text and Detect.

type charVec struct {
	I    []int    `json:"i"`
	CS   string   `json:"cs"`
	Txt  bool     `json:"txt"`
	Bom  []string `json:"bom"`
	Ctv  bool     `json:"ctv"`
	Hcna bool     `json:"hcna"`
	Aat  bool     `json:"aat"`
	C1   bool     `json:"c1"`
	Bin  bool     `json:"bin"`
	UV   bool     `json:"uv"`
}

// c11Holds is the statement of C11 evaluated on the reference facts computed by TLC.
func c11Holds(v *charVec, n int, cs string) (bool, string) {
	if len(v.Bom) > 0 {
		if !contains(v.Bom, cs) {
			return false, fmt.Sprintf("byte-order mark of %v, reported %q", v.Bom, cs)
		}
		return true, ""
	}
	switch cs {
	case "", "utf-8", "windows-1252", "iso-8859-1":
	default:
		return false, "unexpected charset " + cs
	}
	if cs == "utf-8" && !v.Ctv {
		return false, "utf-8 reported for bytes that are not valid UTF-8 (even allowing a cut-off final sequence)"
	}
	if n > 0 && v.Ctv && (v.Aat || v.Hcna) && cs != "utf-8" {
		return false, fmt.Sprintf("valid UTF-8 (all ASCII text: %v, complete non-ASCII character: %v) reported as %q", v.Aat, v.Hcna, cs)
	}
	if cs == "windows-1252" && !v.C1 {
		return false, "windows-1252 without any byte in 0x80-0x9F"
	}
	if cs == "iso-8859-1" && v.C1 {
		return false, "iso-8859-1 although a byte in 0x80-0x9F occurs"
	}
	return true, ""
}

func expandClass(b byte, rng *rand.Rand) byte {
	pick := func(lo, hi int) byte { return byte(lo + rng.Intn(hi-lo+1)) }
	switch {
	case b == 97:
		return pick('b', 'z')
	case b == 128:
		for {
			c := pick(0x80, 0x8E)
			if c != 0x85 {
				return c
			}
		}
	case b == 144:
		return pick(0x90, 0x9E)
	case b == 160:
		return pick(0xA0, 0xBE)
	case b == 192:
		return pick(0xC0, 0xC1)
	case b == 194:
		return pick(0xC2, 0xDE)
	case b == 225:
		return pick(0xE1, 0xEC)
	case b == 238:
		return pick(0xEE, 0xEF)
	case b == 241:
		return pick(0xF1, 0xF3)
	case b == 245:
		return pick(0xF5, 0xFD)
	case b == 0:
		return pick(0, 7)
	case b == 14:
		return pick(14, 25)
	case b == 28:
		return pick(28, 30)
	}
	return b
}

func charsetOf(m *mimetype.MIME) string {
	_, ps, err := mime.ParseMediaType(m.String())
	if err != nil {
		return "?unparsable"
	}
	return ps["charset"]
}

func init() { cmds["charvec"] = charvecMain }

func charvecMain(args []string) int {
	fs := flag.NewFlagSet("charvec", flag.ExitOnError)
	in := fs.String("in", "", "TLC log with vector lines")
	out := fs.String("out", "", "report path")
	seed := fs.Int64("seed", 1, "seed")
	nvar := fs.Int("variants", 1, "class-expanded variants per vector")
	fs.Parse(args)
	rep := newReport("charvec")
	rng := rand.New(rand.NewSource(*seed))
	textNode := findNode("text/plain", ".txt")
	textDet := mimetype.VerifDetector(textNode)
	var vecs []charVec
	err := tlcVectorLines(*in, func(b []byte) {
		var v charVec
		if err := stdjson.Unmarshal(b, &v); err != nil {
			fmt.Fprintln(os.Stderr, "bad vector", err)
			os.Exit(2)
		}
		vecs = append(vecs, v)
	})
	if err != nil || len(vecs) == 0 {
		fmt.Fprintln(os.Stderr, "no vectors", err)
		return 2
	}
	var evals, nontriv, textLeaf, markupLeaf int64
	check := func(v *charVec, raw []byte, base bool) {
		evals++
		// oracle sanity: reference automaton against unicode/utf8
		if base && utf8.Valid(raw) != v.UV {
			rep.oracle(fmt.Sprintf("%x: unicode/utf8.Valid=%v, reference automaton=%v", raw, utf8.Valid(raw), v.UV))
		}
		// direct scanner calls
		if !v.Bin {
			cs := mimetype.VerifCharsetFromPlain(raw)
			if base && cs != v.CS {
				rep.drift(fmt.Sprintf("FromPlain(%x) real=%q model=%q", raw, cs, v.CS))
			}
			if ok, why := c11Holds(v, len(raw), cs); !ok {
				rep.violate(mkViolation("C11", "fromplain", raw, 0, why))
			}
		}
		if textDet(raw, 3072) != v.Txt {
			rep.violate(mkViolation("C07", "text-detector", raw, 3072, fmt.Sprintf("magic.Text=%v, byte-class predicate=%v", !v.Txt, v.Txt)))
		}
	}
	detectCheck := func(v *charVec, raw []byte, hdrLen int, limit uint32) {
		m := mimetype.Detect(raw)
		evals++
		ch := bareChain(m)
		hasText := contains(ch, "text/plain")
		if hasText && !v.Txt {
			rep.violate(mkViolation("C07", "text-in-chain-of-binary-header", raw, int64(limit), "result "+m.String()))
		}
		if v.Txt && len(ch) <= 1 {
			rep.violate(mkViolation("C07", "text-header-unclassified", raw, int64(limit), "result "+m.String()))
		}
		if ch[0] == "text/plain" {
			textLeaf++
			if ok, why := c11Holds(v, hdrLen, charsetOf(m)); !ok {
				rep.violate(mkViolation("C11", "detect", raw, int64(limit), why+" (result "+m.String()+")"))
			}
		}
	}
	// phase 1: direct + Detect at the default limit
	mimetype.SetLimit(3072)
	for k := range vecs {
		v := &vecs[k]
		raw := ints2bytes(v.I)
		if !v.Bin && len(v.Bom) == 0 && (v.Hcna || !v.Ctv || v.C1) {
			nontriv++
		}
		check(v, raw, true)
		detectCheck(v, raw, len(raw), 3072)
		for j := 0; j < *nvar && len(v.Bom) == 0; j++ { // marks are exact byte sequences: no class expansion
			w := make([]byte, len(raw))
			for i, b := range raw {
				w[i] = expandClass(b, rng)
			}
			w = exact(w)
			if startsLikeBOM(w) {
				continue // the expansion happened to spell a byte-order mark: the reference facts of the base string do not apply
			}
			check(v, w, false)
			detectCheck(v, w, len(w), 3072)
		}
		// text padding before / after, so that the bytes sit at different offsets of longer headers
		// (word-at-a-time scanners): the byte-class verdict is unchanged by text bytes; a mark must stay first
		if v.Bin || len(v.Bom) > 0 {
			for _, k := range []int{0, 3, 7} {
				if len(v.Bom) > 0 && k > 0 {
					continue
				}
				w := append(append(bytes.Repeat([]byte("p"), k), raw...), []byte("0123456789abcdef tail")...)
				if len(v.Bom) == 0 && startsLikeBOM(w) {
					continue
				}
				pv := *v
				w = exact(w)
				if textDet(w, 3072) != v.Txt {
					rep.violate(mkViolation("C07", "text-detector-padded", w, 3072, fmt.Sprintf("magic.Text=%v, byte-class predicate=%v", !v.Txt, v.Txt)))
				}
				m := mimetype.Detect(w)
				evals++
				ch := bareChain(m)
				if contains(ch, "text/plain") && !pv.Txt {
					rep.violate(mkViolation("C07", "text-in-chain-of-binary-header", w, 3072, "result "+m.String()))
				}
				if pv.Txt && len(ch) <= 1 {
					rep.violate(mkViolation("C07", "text-header-unclassified", w, 3072, "result "+m.String()))
				}
			}
		}
		// ASCII prefix: exercises the last-three-bytes window on longer inputs (not for marks)
		if len(v.Bom) == 0 && !v.Bin && len(raw) > 0 && !startsLikeBOM(raw) {
			w := exact(append([]byte("abc "), raw...))
			pv := *v
			check(&pv, w, false)
			detectCheck(&pv, w, len(w), 3072)
			// the same bytes as the undeclared body of an XML / HTML document: sniffing also applies to
			// text/xml and text/html leaves (mime.go); an ASCII prologue leaves the reference facts unchanged,
			// a leading UTF-8 mark decides alone
			for _, pro := range []string{`<?xml version="1.0"?><a>`, `<html><body><p>`} {
				for _, mark := range []bool{false, true} {
					pv := *v
					doc := pro
					if mark {
						doc = "\xEF\xBB\xBF" + pro
						pv.Bom = []string{"utf-8"}
					}
					w := exact(append([]byte(doc), raw...))
					m := mimetype.Detect(w)
					evals++
					if b := baseType(m.String()); b == "text/xml" || b == "text/html" {
						markupLeaf++
						if ok, why := c11Holds(&pv, len(w), charsetOf(m)); !ok {
							rep.violate(mkViolation("C11", "detect-undeclared-markup", w, 3072, why+" (result "+m.String()+")"))
						}
					}
				}
			}
		}
	}
	// phase 2: limit = len(header): bytes beyond the limit (binary or not) must not matter
	byLen := map[int][]int{}
	for k := range vecs {
		byLen[len(vecs[k].I)] = append(byLen[len(vecs[k].I)], k)
	}
	lens := []int{}
	for l := range byLen {
		lens = append(lens, l)
	}
	sort.Ints(lens)
	tails := [][]byte{{0x00}, {0x1F, 'x'}, {'a', 0xC3}, {0xA9}}
	for _, L := range lens {
		if L == 0 {
			continue
		}
		mimetype.SetLimit(uint32(L))
		for _, k := range byLen[L] {
			v := &vecs[k]
			raw := ints2bytes(v.I)
			t := tails[rng.Intn(len(tails))]
			detectCheck(v, exact(append(append([]byte{}, raw...), t...)), L, uint32(L))
		}
	}
	mimetype.SetLimit(3072)
	rep.Evaluations = evals
	rep.Nontrivial = nontriv
	rep.Extra["vectors"] = len(vecs)
	rep.Extra["text_plain_leaf_results"] = textLeaf
	rep.Extra["undeclared_xml_html_leaf_results"] = markupLeaf
	for i := 0; i < len(vecs) && len(rep.Samples) < 8; i += len(vecs)/8 + 1 {
		rep.sample(map[string]any{"bytes": fmt.Sprintf("%x", ints2bytes(vecs[i].I)), "model_charset": vecs[i].CS, "text": vecs[i].Txt, "cut_tail_valid": vecs[i].Ctv})
	}
	rep.write(*out)
	return 0
}

func startsLikeBOM(b []byte) bool { return mimetype.VerifCharsetFromBOM(b) != "" }
