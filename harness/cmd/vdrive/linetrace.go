package main

import (
	"bufio"
	stdjson "encoding/json"
	"flag"
	"fmt"
	"math/rand"
	"os"
	"path/filepath"
	"strings"

	"github.com/gabriel-vasile/mimetype"
)

// linetrace generates CSV / TSV / NDJSON files larger than the exhaustive bound (RFC 4180
// quoting, numbers, unicode, comments, blank lines, LF / CRLF, ragged or damaged lines),
// cuts them at every limit and records the abstract structure with each detection.

type lineInfo struct {
	N      int  `json:"n"`
	End    int  `json:"end"`
	Term   bool `json:"term"`
	Val    bool `json:"val"`
	Blank  bool `json:"blank"`
	ObjArr bool `json:"objarr"`
}

type linesRec struct {
	Ev     string     `json:"ev"`
	Kind   string     `json:"kind"`
	Lines  []lineInfo `json:"lines"`
	HL     int        `json:"hl"`
	Limit  int64      `json:"limit"`
	Result string     `json:"result"`
	Exempt bool       `json:"exempt"`
	Note   string     `json:"note,omitempty"`
}

var csvAtoms = []string{"a", "bc", "1", "-2.5", "x y", "é", "日本", "", "0", "NULL", "a.b", "2024-01-01"}

func csvField(rng *rand.Rand, delim byte, allowQuote bool) string {
	if allowQuote && rng.Intn(5) == 0 {
		inner := []string{"q", "a" + string(delim) + "b", `a""b`, "x " + string(delim) + " y", ""}[rng.Intn(5)]
		return `"` + inner + `"`
	}
	return csvAtoms[rng.Intn(len(csvAtoms))]
}

type genFile struct {
	kind  string
	bytes []byte
	lines []lineInfo
}

func genTable(rng *rand.Rand, kind string) genFile { return genTableN(rng, kind, 2+rng.Intn(7)) }

// genTableN: tables of a given number of records (long ones: a damaged line may come after any number
// of well-formed records and still be a complete line inside the header)
func genTableN(rng *rand.Rand, kind string, rows int) genFile {
	delim := byte(',')
	if kind == "tsv" {
		delim = '\t'
	}
	cols := 2 + rng.Intn(4)
	term := []string{"\n", "\r\n"}[rng.Intn(2)]
	final := rng.Intn(2) == 0
	raggedAt := -1
	if rng.Intn(4) == 0 {
		raggedAt = rng.Intn(rows)
	}
	if rows > 50 {
		cols = 2 + rng.Intn(2)
		raggedAt = -1
		if rng.Intn(3) > 0 {
			raggedAt = rows/2 + rng.Intn(rows-rows/2) // in the second half
		}
	}
	oneCol := rng.Intn(12) == 0
	var b strings.Builder
	var lines []lineInfo
	for r := 0; r < rows; r++ {
		if r > 0 && rng.Intn(8) == 0 {
			if rng.Intn(2) == 0 {
				b.WriteString(term) // empty line
			} else {
				b.WriteString("#comment" + string(delim) + "x" + term)
			}
			lines = append(lines, lineInfo{N: 0, End: b.Len(), Term: true})
		}
		n := cols
		if r == raggedAt {
			n = cols + 1 - 2*rng.Intn(2)
			if n < 1 {
				n = 1
			}
		}
		if oneCol {
			n = 1
		}
		var fields []string
		for c := 0; c < n; c++ {
			f := csvField(rng, delim, rows <= 50)
			if rows > 50 && len(f) > 3 {
				f = f[:1]
			}
			if n == 1 && f == "" {
				f = "a"
			}
			if c == 0 && strings.HasPrefix(f, "#") {
				f = "a"
			}
			fields = append(fields, f)
		}
		b.WriteString(strings.Join(fields, string(delim)))
		last := r == rows-1
		hasTerm := !last || final
		if hasTerm {
			b.WriteString(term)
		}
		lines = append(lines, lineInfo{N: n, End: b.Len(), Term: hasTerm})
	}
	return genFile{kind: kind, bytes: []byte(b.String()), lines: lines}
}

func genNd(rng *rand.Rand, g *jsonGen) genFile { return genNdN(rng, g, 2+rng.Intn(6)) }

func genNdN(rng *rand.Rand, g *jsonGen, rows int) genFile {
	term := []string{"\n", "\r\n"}[rng.Intn(2)]
	final := rng.Intn(2) == 0
	damage := -1
	if rng.Intn(4) == 0 {
		damage = rng.Intn(rows)
	}
	if rows > 50 && rng.Intn(3) > 0 {
		damage = rows/2 + rng.Intn(rows-rows/2)
	}
	var b strings.Builder
	var lines []lineInfo
	for r := 0; r < rows; r++ {
		g.layout = []int{0, 1}[rng.Intn(2)] // single-line layouts only
		var ln string
		switch rng.Intn(6) {
		case 0:
			ln = g.scalar()
		case 1:
			ln = g.array(2)
		default:
			ln = g.object(2)
		}
		if rows > 50 { // short lines so that hundreds of them fit into the default header
			ln = []string{`{"a":1}`, `[1,2]`, `{"b":[]}`, `{}`, `[{"c":null}]`, `7`}[rng.Intn(6)]
			if r == damage {
				ln = []string{`{"a":1}`, `[1,2]`, `{"b":[]}`}[rng.Intn(3)]
			}
		}
		ln = strings.NewReplacer("\n", " ", "\r", " ").Replace(ln)
		if r > 0 && r < rows-1 && rng.Intn(10) == 0 {
			ln = []string{"", " ", "\t "}[rng.Intn(3)]
		}
		if r == damage {
			// structural damage that no lexical leniency of the scanner can excuse (liberal number
			// spellings such as "1." are accepted by design): only containers are damaged, by
			// dropping the last closer or by appending a stray closer / garbage
			t := strings.TrimSpace(ln)
			if t != "" && (t[0] == '{' || t[0] == '[') {
				switch rng.Intn(3) {
				case 0:
					ln = t[:len(t)-1]
				case 1:
					ln = t + string(t[len(t)-1])
				default:
					ln = t + " x"
				}
			}
		}
		trimmed := strings.TrimSpace(ln)
		info := lineInfo{Blank: trimmed == "", Val: trimmed != "" && stdjson.Valid([]byte(ln))}
		if info.Val {
			info.ObjArr = trimmed[0] == '{' || trimmed[0] == '['
		}
		b.WriteString(ln)
		last := r == rows-1
		hasTerm := !last || final || ln == ""
		if hasTerm {
			b.WriteString(term)
		}
		info.End = b.Len()
		info.Term = hasTerm
		info.N = 1
		lines = append(lines, info)
	}
	return genFile{kind: "nd", bytes: []byte(b.String()), lines: lines}
}

func init() { cmds["linetrace"] = linetraceMain }

func linetraceMain(args []string) int {
	fs := flag.NewFlagSet("linetrace", flag.ExitOnError)
	outDir := fs.String("outdir", "", "trace directory")
	shards := fs.Int("shards", 16, "trace files")
	files := fs.Int("files", 400, "files to generate")
	seed := fs.Int64("seed", 1, "seed")
	report := fs.String("out", "", "report path")
	fs.Parse(args)
	rep := newReport("linetrace")
	rng := rand.New(rand.NewSource(*seed))
	g := &jsonGen{rng: rng}
	ws := make([]*bufio.Writer, *shards)
	fsx := make([]*os.File, *shards)
	for i := range ws {
		f, err := os.Create(filepath.Join(*outDir, fmt.Sprintf("lines-%02d.ndjson", i)))
		if err != nil {
			fmt.Fprintln(os.Stderr, err)
			return 2
		}
		fsx[i] = f
		ws[i] = bufio.NewWriterSize(f, 1<<20)
	}
	text := findNode("text/plain", ".txt")
	var textChildren []*mimetype.MIME
	for _, t := range mimetype.VerifTree() {
		if t.M == text {
			textChildren = t.Children
		}
	}
	// "higher-priority signature" is read against the pinned order of the children of text/plain (tree.go:83),
	// not against whatever order the tree under test has: NDJSON is consulted before CSV and TSV
	pinnedText := []string{"text/html", "image/svg+xml", "text/xml", "text/x-php", "text/javascript", "text/x-lua", "text/x-perl", "text/x-python",
		"application/json", "application/x-ndjson", "text/rtf", "application/x-subrip", "text/x-tcl", "text/csv", "text/tab-separated-values",
		"text/vcard", "text/calendar", "application/warc", "text/vtt"}
	_ = textChildren
	idxOf := func(name string) int {
		for i, c := range pinnedText {
			if c == name {
				return i
			}
		}
		return 1 << 30
	}
	typeOf := map[string]string{"csv": "text/csv", "tsv": "text/tab-separated-values", "nd": "application/x-ndjson"}
	var n, kept int64
	results := map[string]int{}
	for fi := 0; fi < *files; fi++ {
		var gf genFile
		switch fi % 3 {
		case 0:
			gf = genTable(rng, "csv")
		case 1:
			gf = genTable(rng, "tsv")
		default:
			gf = genNd(rng, g)
		}
		if fi == 7 || fi == 8 {
			// a line longer than any line-scanner buffer, then (fi == 7) a damaged line
			var b strings.Builder
			var lines []lineInfo
			add := func(ln string, val, objarr bool) {
				b.WriteString(ln + "\n")
				lines = append(lines, lineInfo{N: 1, End: b.Len(), Term: true, Val: val, ObjArr: objarr, Blank: ln == ""})
			}
			add(`{"a":1}`, true, true)
			add(`[1,2]`, true, true)
			add(`{"k":"`+strings.Repeat("x", 70000)+`"}`, true, true)
			if fi == 7 {
				add(`{"c":`, false, false)
			}
			add(`{"d":4}`, true, true)
			gf = genFile{kind: "nd", bytes: []byte(b.String()), lines: lines}
		}
		long := fi%25 >= 22 || fi == 7 || fi == 8
		if fi == 7 || fi == 8 {
			// keep the hand-built file
		} else if long && gf.kind == "nd" {
			gf = genNdN(rng, g, 90+rng.Intn(200))
		} else if long {
			gf = genTableN(rng, gf.kind, 90+rng.Intn(90))
		}
		if len(gf.bytes) == 0 {
			continue
		}
		limits := []int64{0, int64(len(gf.bytes) + 1)}
		if long {
			limits = append(limits, 3072, int64(len(gf.bytes)))
			for c := 0; c < 10; c++ {
				limits = append(limits, int64(len(gf.bytes)/2+rng.Intn(len(gf.bytes)/2)))
			}
		} else {
			for c := 1; c <= len(gf.bytes); c++ {
				limits = append(limits, int64(c))
			}
		}
		for _, lim := range limits {
			mimetype.SetLimit(uint32(lim))
			m := mimetype.Detect(exact(gf.bytes))
			hl := len(gf.bytes)
			if lim > 0 && int64(hl) > lim {
				hl = int(lim)
			}
			ch := bareChain(m)
			ex := false
			if ch[0] != typeOf[gf.kind] {
				if len(ch) >= 2 && ch[len(ch)-2] != "text/plain" {
					ex = true
				} else if len(ch) >= 3 && idxOf(ch[len(ch)-3]) < idxOf(typeOf[gf.kind]) {
					ex = true
				}
			}
			results[ch[0]]++
			rec := linesRec{Ev: "lines", Kind: gf.kind, Lines: gf.lines, HL: hl, Limit: lim, Result: ch[0], Exempt: ex}
			if fi < 3 && lim == 0 {
				rec.Note = string(gf.bytes)
				rep.sample(map[string]any{"kind": gf.kind, "file": string(gf.bytes), "result": ch[0]})
			}
			b, _ := stdjson.Marshal(rec)
			k := fi % *shards
			ws[k].Write(b)
			ws[k].WriteByte('\n')
			n++
			if ch[0] == typeOf[gf.kind] {
				kept++
			}
		}
	}
	mimetype.SetLimit(3072)
	for i := range ws {
		ws[i].Flush()
		fsx[i].Close()
	}
	rep.Evaluations = n
	rep.Nontrivial = kept
	rep.Extra["files"] = *files
	rep.Extra["results"] = results
	rep.write(*report)
	return 0
}
