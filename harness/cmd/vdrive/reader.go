package main

import (
	"bufio"
	"bytes"
	stdjson "encoding/json"
	"errors"
	"flag"
	"fmt"
	"io"
	"math/rand"
	"os"
	"path/filepath"
	"strings"

	"github.com/gabriel-vasile/mimetype"
)

// C05: readervec replays the behaviours of MC_Reader.tla with a scripted reader;
// readertrace logs every Read call of the real DetectReader for TraceReader.tla.

var errSentinel error = errors.New("verif: injected read fault")

// tempFault is the same injected fault dressed as a "temporary" error (EAGAIN / timeout style)
type tempFault struct{}

func (tempFault) Error() string   { return "verif: injected temporary read fault" }
func (tempFault) Temporary() bool { return true }
func (tempFault) Timeout() bool   { return true }

var errTemp error = tempFault{}

type readerVec struct {
	D   int                    `json:"d"`
	L   int                    `json:"l"`
	F   int                    `json:"f"`
	H   [][]stdjson.RawMessage `json:"h"`
	N   int                    `json:"n"`
	E   string                 `json:"e"`
	Off int                    `json:"off"`
}

type scriptStep struct {
	k int
	e string
}

type scriptedReader struct {
	data  []byte
	off   int
	steps []scriptStep
	i     int
	unit  int
	extra int // Read calls beyond the script
	short int // room smaller than the scripted reply
	fault error
	rooms []int
}

func (s *scriptedReader) Read(p []byte) (int, error) {
	s.rooms = append(s.rooms, len(p))
	if s.i >= len(s.steps) {
		s.extra++
		return 0, io.EOF
	}
	st := s.steps[s.i]
	s.i++
	k := st.k * s.unit
	if k > len(p) {
		s.short++
		k = len(p)
	}
	copy(p, s.data[s.off:s.off+k])
	s.off += k
	switch st.e {
	case "EOF":
		return k, io.EOF
	case "Fault":
		return k, s.fault
	}
	return k, nil
}

var readerPayloads = [][]byte{
	[]byte("PK\x03\x04\x0a\x00\x00\x00\x00\x00\x00\x00\x00\x00\x00\x00"),
	[]byte("[1,2,3]\n[4,5]\n\n\n\n"),
	[]byte("\x89PNG\x0d\x0a\x1a\x0a\x00\x00\x00\x0dIHDR"),
	[]byte("%PDF-1.7\n%\xe2\xe3\xcf\xd3\n1 0"),
	[]byte("<html><head></he"),
	[]byte("a,b\n1,2\n3,4\n5,6\n"),
}

func init() {
	cmds["readervec"] = readervecMain
	cmds["readertrace"] = readertraceMain
}

func readervecMain(args []string) int {
	fs := flag.NewFlagSet("readervec", flag.ExitOnError)
	in := fs.String("in", "", "TLC log")
	out := fs.String("out", "", "report")
	fs.Parse(args)
	rep := newReport("readervec")
	tmp, _ := os.MkdirTemp("", "vdrive-reader")
	defer os.RemoveAll(tmp)
	units := []int{2, 256, 512} // the model's abstract byte is 2 / 256 / 512 real bytes: limits and fault offsets on 512-byte boundaries too
	var n, faults int64
	vecIdx := 0
	err := tlcVectorLines(*in, func(b []byte) {
		var v readerVec
		if err := stdjson.Unmarshal(b, &v); err != nil {
			fmt.Fprintln(os.Stderr, "bad vector", err)
			os.Exit(2)
		}
		var steps []scriptStep
		for _, h := range v.H {
			var st scriptStep
			stdjson.Unmarshal(h[1], &st.k)
			stdjson.Unmarshal(h[2], &st.e)
			steps = append(steps, st)
		}
		vecIdx++
		for ui, unit := range units {
			for pi, payload := range readerPayloads {
				if ui > 0 && pi%3 != int(n)%3 {
					continue // the large units on a third of the payloads per vector
				}
				if need := v.D * unit; len(payload) < need {
					payload = append(append([]byte{}, payload...), bytes.Repeat([]byte("filler, "), need/8+1)...)
				}
				data := exact(payload[:v.D*unit])
				limit := uint32(v.L * unit)
				mimetype.SetLimit(limit)
				want := errSentinel
				if (vecIdx+pi+ui)%2 == 1 {
					want = errTemp
				}
				sr := &scriptedReader{data: data, steps: steps, unit: unit, fault: want}
				got, gerr := mimetype.DetectReader(sr)
				n++
				key := fmt.Sprintf("payload=%d data=%d limit=%d fault=%d script=%v", pi, len(data), limit, v.F*unit, steps)
				bad := func(kind, detail string) {
					rep.violate(Violation{Property: "C05", Kind: kind, Text: key, Limit: int64(limit), Detail: detail, Key: "C05|" + kind + "|" + key})
				}
				if limit > 0 && sr.off > int(limit) {
					bad("over-read", fmt.Sprintf("%d bytes taken from the reader, limit %d", sr.off, limit))
				}
				if ui == 0 && (sr.extra > 0 || sr.short > 0 || sr.off != v.Off*unit) {
					rep.drift(fmt.Sprintf("%s: real reads %v (extra %d, short %d, consumed %d), model consumed %d", key, sr.rooms, sr.extra, sr.short, sr.off, v.Off*unit))
				}
				if v.E == "Fault" {
					faults++
					if gerr != want {
						bad("fault-not-surfaced", fmt.Sprintf("reader failed before the header was complete; DetectReader returned err=%v type=%s", gerr, got))
					} else if got == nil || got.String() != "application/octet-stream" || got.Parent() != nil {
						bad("fault-with-type", fmt.Sprintf("error returned together with %s", got))
					}
				} else {
					if gerr != nil {
						bad("spurious-error", fmt.Sprintf("no failure before the header was complete, yet err=%v", gerr))
					} else {
						want := mimetype.Detect(exact(data[:v.N*unit]))
						if got.String() != want.String() || got.Extension() != want.Extension() {
							bad("reader-differs-from-bytes", fmt.Sprintf("DetectReader=%s Detect(header)=%s", got, want))
						}
					}
				}
				if n%997 == 1 {
					rep.sample(map[string]any{"case": key, "model_error": v.E, "result": fmt.Sprint(got), "err": fmt.Sprint(gerr)})
				}
			}
		}
		// DetectFile over the same data (no fault): same as Detect on the bytes
		if v.F == 99 && len(v.H) <= 1 {
			const unit = 2
			data := readerPayloads[n%int64(len(readerPayloads))][:v.D*unit]
			p := filepath.Join(tmp, "f")
			os.WriteFile(p, data, 0o600)
			mimetype.SetLimit(uint32(v.L * unit))
			got, gerr := mimetype.DetectFile(p)
			want := mimetype.Detect(exact(data))
			if gerr != nil || got.String() != want.String() {
				rep.violate(Violation{Property: "C05", Kind: "file-differs-from-bytes", Text: fmt.Sprintf("%q limit %d", data, v.L*unit), Detail: fmt.Sprintf("DetectFile=%s err=%v Detect=%s", got, gerr, want), Key: fmt.Sprintf("C05|file|%x|%d", data, v.L)})
			}
		}
	})
	if err != nil || n == 0 {
		fmt.Fprintln(os.Stderr, "no vectors", err)
		return 2
	}
	// DetectFile and DetectReader(*os.File) on regular files of every size around the limit
	filePayloads := append([][]byte{[]byte(`{"type":"Feature","geometry":null}`), []byte("{\"a\":1}\n{\"b\":2}\n{\"c\":"), []byte("a,b\n1,2\n3,4")}, readerPayloads...)
	for _, payload := range filePayloads {
		for size := 0; size <= len(payload); size++ {
			data := payload[:size]
			p := filepath.Join(tmp, "g")
			os.WriteFile(p, data, 0o600)
			for _, lim := range []int{0, size - 1, size, size + 1, size + 7, 3072} {
				if lim < 0 {
					continue
				}
				mimetype.SetLimit(uint32(lim))
				want := mimetype.Detect(exact(data))
				got, gerr := mimetype.DetectFile(p)
				n++
				if gerr != nil || got.String() != want.String() || got.Extension() != want.Extension() {
					rep.violate(Violation{Property: "C05", Kind: "file-differs-from-bytes", Text: fmt.Sprintf("%q limit %d", data, lim), Limit: int64(lim), Detail: fmt.Sprintf("DetectFile=%s err=%v Detect=%s", got, gerr, want), Key: fmt.Sprintf("C05|file|%x|%d", data, lim)})
				}
				f, err := os.Open(p)
				if err == nil {
					got2, gerr2 := mimetype.DetectReader(f)
					f.Close()
					if gerr2 != nil || got2.String() != want.String() {
						rep.violate(Violation{Property: "C05", Kind: "osfile-reader-differs-from-bytes", Text: fmt.Sprintf("%q limit %d", data, lim), Limit: int64(lim), Detail: fmt.Sprintf("DetectReader(*os.File)=%s err=%v Detect=%s", got2, gerr2, want), Key: fmt.Sprintf("C05|osfile|%x|%d", data, lim)})
					}
				}
			}
		}
	}
	// readers that were already read from: DetectReader sees (and may take) only what the reader still delivers
	for _, payload := range filePayloads {
		for _, k := range []int{1, 4, 9} {
			if k >= len(payload) {
				continue
			}
			for _, lim := range []int{0, 5, 3072} {
				mimetype.SetLimit(uint32(lim))
				rest := payload[k:]
				want := mimetype.Detect(exact(rest))
				p := filepath.Join(tmp, "h")
				os.WriteFile(p, payload, 0o600)
				f, _ := os.Open(p)
				f.Seek(int64(k), io.SeekStart)
				readers := map[string]io.ReadSeeker{"bytes.Reader": bytes.NewReader(payload), "strings.Reader": strings.NewReader(string(payload)),
					"io.SectionReader": io.NewSectionReader(bytes.NewReader(payload), 0, int64(len(payload))), "os.File": f}
				for name, r := range readers {
					r.Seek(int64(k), io.SeekStart)
					got, gerr := mimetype.DetectReader(r)
					pos, _ := r.Seek(0, io.SeekCurrent)
					n++
					what := fmt.Sprintf("%s positioned at %d of %q limit %d", name, k, payload, lim)
					if gerr != nil || got.String() != want.String() {
						rep.violate(Violation{Property: "C05", Kind: "positioned-reader-differs-from-bytes", Text: what, Limit: int64(lim), Detail: fmt.Sprintf("DetectReader=%s err=%v, Detect on the delivered bytes=%s", got, gerr, want), Key: "C05|positioned|" + what})
					}
					if maxPos := int64(len(payload)); lim > 0 && pos > int64(k+lim) || pos > maxPos || pos < int64(k) {
						rep.violate(Violation{Property: "C05", Kind: "positioned-reader-over-read", Text: what, Limit: int64(lim), Detail: fmt.Sprintf("reader position %d after the call (started at %d)", pos, k), Key: "C05|positioned-pos|" + what})
					}
				}
				f.Close()
			}
		}
	}
	// inputs a little longer / shorter than 4096 * 2^k under limits a little above / below them (buffers
	// grown in blocks): a PNG header, a JSON array and text, through every reader kind
	bigBodies := map[string][]byte{
		"png":  append([]byte("\x89PNG\x0d\x0a\x1a\x0a\x00\x00\x00\x0dIHDR"), bytes.Repeat([]byte{0xAB, 0x00, 0x17}, 12000)...),
		"json": []byte("[" + strings.Repeat("12345,", 6000) + "1]"),
		"text": bytes.Repeat([]byte("plain text line\n"), 2300),
	}
	for name, body := range bigBodies {
		for _, size := range []int{4095, 4096, 4097, 4101, 8191, 8192, 8195, 16384, 16390, 32769} {
			if size > len(body) {
				continue
			}
			data := body[:size]
			p := filepath.Join(tmp, "big")
			os.WriteFile(p, data, 0o600)
			for _, lim := range []int{3072, 4096, 4100, 8192, 8200, 16400, 1 << 20, 0} {
				mimetype.SetLimit(uint32(lim))
				want := mimetype.Detect(exact(data)).String()
				what := fmt.Sprintf("%s of %d bytes limit %d", name, size, lim)
				got1, err1 := mimetype.DetectReader(bytes.NewReader(data))
				got2, err2 := mimetype.DetectFile(p)
				got3, err3 := mimetype.DetectReader(iotest1(data))
				n += 3
				for i, g := range []*mimetype.MIME{got1, got2, got3} {
					if e := []error{err1, err2, err3}[i]; e != nil || g.String() != want {
						rep.violate(Violation{Property: "C05", Kind: "large-input-reader-differs-from-bytes", Text: what, Limit: int64(lim),
							Detail: fmt.Sprintf("%s=%s err=%v, Detect=%s", []string{"DetectReader(bytes.Reader)", "DetectFile", "DetectReader(one byte at a time)"}[i], g, e, want), Key: fmt.Sprintf("C05|big|%s|%d", what, i)})
					}
				}
			}
		}
	}
	// limits above 1 MiB with inputs of about that size (staged reads)
	{
		body := []byte("[" + strings.Repeat("1234567,", 200000) + "1]") // 1.6 MB of JSON
		for _, size := range []int{1 << 20, 1<<20 + 5, len(body)} {
			data := body[:size]
			p := filepath.Join(tmp, "huge")
			os.WriteFile(p, data, 0o600)
			for _, lim := range []int{1<<20 + 1, 2 << 20, 0} {
				mimetype.SetLimit(uint32(lim))
				want := mimetype.Detect(exact(data)).String()
				got1, err1 := mimetype.DetectReader(bytes.NewReader(data))
				got2, err2 := mimetype.DetectFile(p)
				n += 2
				for i, g := range []*mimetype.MIME{got1, got2} {
					if e := []error{err1, err2}[i]; e != nil || g.String() != want {
						rep.violate(Violation{Property: "C05", Kind: "large-limit-reader-differs-from-bytes", Text: fmt.Sprintf("JSON of %d bytes limit %d", size, lim), Limit: int64(lim),
							Detail: fmt.Sprintf("%s=%s err=%v, Detect=%s", []string{"DetectReader", "DetectFile"}[i], g, e, want), Key: fmt.Sprintf("C05|huge|%d|%d|%d", size, lim, i)})
					}
				}
			}
		}
	}
	// regular files whose stat size says nothing about their content (procfs reports 0): DetectFile and
	// DetectReader(*os.File) still see the bytes the file delivers
	for _, p := range []string{"/proc/self/cmdline", "/proc/version", "/proc/self/environ", "/proc/cpuinfo"} {
		data, err := os.ReadFile(p)
		if err != nil || len(data) == 0 {
			continue
		}
		for _, lim := range []int{3072, 16, 0} {
			mimetype.SetLimit(uint32(lim))
			want := mimetype.Detect(exact(data))
			got, gerr := mimetype.DetectFile(p)
			again, _ := os.ReadFile(p)
			if !bytes.Equal(again, data) {
				continue // the file changed under us: no verdict
			}
			n++
			if gerr != nil || got.String() != want.String() {
				rep.violate(Violation{Property: "C05", Kind: "procfs-file-differs-from-bytes", Text: fmt.Sprintf("%s limit %d", p, lim), Limit: int64(lim), Detail: fmt.Sprintf("DetectFile=%s err=%v, Detect on the file's bytes=%s", got, gerr, want), Key: fmt.Sprintf("C05|procfs|%s|%d", p, lim)})
			}
		}
	}
	// a pipe is a conforming reader too (and an *os.File that is not a regular file)
	for _, payload := range filePayloads {
		for _, lim := range []int{0, 7, 3072} {
			mimetype.SetLimit(uint32(lim))
			pr, pw, err := os.Pipe()
			if err != nil {
				break
			}
			go func() { pw.Write(payload); pw.Close() }()
			got, gerr := mimetype.DetectReader(pr)
			pr.Close()
			want := mimetype.Detect(exact(payload))
			n++
			if gerr != nil || got.String() != want.String() {
				rep.violate(Violation{Property: "C05", Kind: "pipe-differs-from-bytes", Text: fmt.Sprintf("%q limit %d", payload, lim), Limit: int64(lim), Detail: fmt.Sprintf("DetectReader(pipe)=%s err=%v Detect=%s", got, gerr, want), Key: fmt.Sprintf("C05|pipe|%x|%d", payload, lim)})
			}
		}
	}
	// file errors
	for _, p := range []string{filepath.Join(tmp, "missing"), tmp} {
		got, gerr := mimetype.DetectFile(p)
		if gerr == nil || got == nil || got.String() != "application/octet-stream" {
			rep.violate(Violation{Property: "C05", Kind: "file-error", Text: p, Detail: fmt.Sprintf("DetectFile=%s err=%v", got, gerr), Key: "C05|fileerr|" + filepath.Base(p)})
		}
	}
	mimetype.SetLimit(3072)
	rep.Evaluations = n
	rep.Nontrivial = faults
	rep.Extra["behaviours_x_payloads"] = n
	rep.Extra["with_fault_before_header_complete"] = faults
	rep.write(*out)
	return 0
}

type oneByteReader struct {
	d []byte
}

func (r *oneByteReader) Read(p []byte) (int, error) {
	if len(r.d) == 0 {
		return 0, io.EOF
	}
	if len(p) == 0 {
		return 0, nil
	}
	k := 1
	if len(r.d) > 700 && len(p) > 700 { // mostly chunks of 700, so that block boundaries are crossed mid-read
		k = 700
	}
	copy(p, r.d[:k])
	r.d = r.d[k:]
	return k, nil
}

func iotest1(d []byte) io.Reader { return &oneByteReader{d: d} }

// ---- trace direction

type loggingReader struct {
	data    []byte
	off     int
	fault   int // -1 none
	rng     *rand.Rand
	style   int
	w       *bufio.Writer
	zero    bool
	eofWith bool
}

func (r *loggingReader) Read(p []byte) (int, error) {
	end := len(r.data)
	if r.fault >= 0 {
		end = r.fault
	}
	avail := end - r.off
	k := avail
	if k > len(p) {
		k = len(p)
	}
	switch r.style {
	case 1: // one byte at a time
		if k > 1 {
			k = 1
		}
	case 2: // random short reads, sometimes (0, nil)
		if k > 0 {
			k = r.rng.Intn(k + 1)
			if k == 0 && r.zero {
				k = 1
			}
		}
	case 3: // chunks of 3
		if k > 3 {
			k = 3
		}
	}
	r.zero = k == 0
	copy(p, r.data[r.off:r.off+k])
	r.off += k
	e := "nil"
	var err error
	if r.off == end && (k == 0 || r.eofWith) {
		if r.fault >= 0 {
			e, err = "Fault", errSentinel
		} else {
			e, err = "EOF", io.EOF
		}
	}
	fmt.Fprintf(r.w, "{\"ev\":\"read\",\"room\":%d,\"k\":%d,\"e\":%q}\n", len(p), k, e)
	return k, err
}

func readertraceMain(args []string) int {
	fs := flag.NewFlagSet("readertrace", flag.ExitOnError)
	outDir := fs.String("outdir", "", "trace directory")
	shards := fs.Int("shards", 16, "trace files")
	corpus := fs.String("corpus", "", "corpus directory")
	seed := fs.Int64("seed", 1, "seed")
	chunkings := fs.Int("chunkings", 4, "chunking schedules per (sample, limit)")
	report := fs.String("out", "", "report path")
	fs.Parse(args)
	rep := newReport("readertrace")
	names, data := loadCorpus(*corpus)
	var n, faults int64
	for sh := 0; sh < *shards; sh++ {
		rng := rand.New(rand.NewSource(*seed*31 + int64(sh)))
		f, err := os.Create(filepath.Join(*outDir, fmt.Sprintf("reader-%02d.ndjson", sh)))
		if err != nil {
			fmt.Fprintln(os.Stderr, err)
			return 2
		}
		w := bufio.NewWriterSize(f, 1<<20)
		for si := range data {
			if si%*shards != sh {
				continue
			}
			d := data[si]
			if len(d) > 20000 {
				d = d[:20000]
			}
			limits := []int{0, 1, 7, 3072, len(d) + 1}
			if len(d) > 1 {
				limits = append(limits, len(d)-1, len(d))
			}
			for _, lim := range limits {
				for c := 0; c < *chunkings; c++ {
					fault := -1
					if rng.Intn(3) == 0 {
						max := len(d)
						if lim > 0 && lim < max {
							max = lim
						}
						fault = rng.Intn(max + 1)
					}
					mimetype.SetLimit(uint32(lim))
					fmt.Fprintf(w, "{\"ev\":\"begin\",\"dlen\":%d,\"limit\":%d,\"fault\":%d,\"sample\":%q}\n", len(d), lim, fault, names[si])
					lr := &loggingReader{data: d, fault: fault, rng: rng, style: rng.Intn(4), w: w, eofWith: rng.Intn(2) == 0}
					got, gerr := mimetype.DetectReader(lr)
					n++
					errc := "nil"
					if gerr == errSentinel {
						errc = "Fault"
						faults++
					} else if gerr != nil {
						errc = "other"
					}
					hn := lr.off
					same := false
					if gerr == nil {
						want := mimetype.Detect(exact(d[:hn]))
						same = want.String() == got.String() && want.Extension() == got.Extension()
					}
					root := got != nil && got.String() == "application/octet-stream" && got.Parent() == nil
					fmt.Fprintf(w, "{\"ev\":\"end\",\"n\":%d,\"err\":%q,\"same\":%v,\"root\":%v,\"result\":%q}\n", hn, errc, same, root, fmt.Sprint(got))
					if n%1499 == 1 {
						rep.sample(map[string]any{"sample": names[si], "limit": lim, "fault_at": fault, "style": lr.style, "result": fmt.Sprint(got), "err": errc})
					}
				}
			}
		}
		w.Flush()
		f.Close()
	}
	mimetype.SetLimit(3072)
	rep.Evaluations = n
	rep.Nontrivial = faults
	rep.Extra["cases"] = n
	rep.Extra["cases_with_surfaced_fault"] = faults
	rep.write(*report)
	return 0
}
