// Command vdrive is the Go side of the model-based verification of mimetype:
// it replays TLC-generated vectors / behaviours on the real package and records
// traces of the real package for validation against the TLA+ specifications.
package main

import (
	"fmt"
	"os"
)

type subcmd func(args []string) int

var cmds = map[string]subcmd{}

func main() {
	if len(os.Args) < 2 {
		fmt.Fprintln(os.Stderr, "usage: vdrive <subcommand> [flags]")
		os.Exit(2)
	}
	c, ok := cmds[os.Args[1]]
	if !ok {
		fmt.Fprintf(os.Stderr, "unknown subcommand %q\n", os.Args[1])
		os.Exit(2)
	}
	os.Exit(c(os.Args[2:]))
}
