package main

import (
	"bufio"
	"bytes"
	"encoding/base64"
	stdjson "encoding/json"
	"flag"
	"fmt"
	"math/rand"
	"mime"
	"os"
	"path/filepath"
	"sort"
	"strings"

	"github.com/gabriel-vasile/mimetype"
)

// treetrace drives the real package sequentially over the corpus (cut at many limits,
// several entry points, with extensions registered on the real tree) and records, for
// every detection, the consult events of the walk, the result read back through the
// public accessors and independent re-invocations of detectors, for TraceTree.tla.

type corpusCase struct {
	Name string `json:"name"`
	Data string `json:"data_b64"`
	Mime string `json:"expected"`
}

func loadCorpus(dir string) (names []string, data [][]byte) {
	b, err := os.ReadFile(filepath.Join(dir, "testcases.json"))
	if err != nil {
		fmt.Fprintln(os.Stderr, "corpus:", err)
		os.Exit(2)
	}
	var cs []corpusCase
	if err := stdjson.Unmarshal(b, &cs); err != nil {
		fmt.Fprintln(os.Stderr, "corpus:", err)
		os.Exit(2)
	}
	for _, c := range cs {
		d, _ := base64.StdEncoding.DecodeString(c.Data)
		names = append(names, c.Name)
		data = append(data, d)
	}
	// polyglots: inputs that satisfy several siblings or several levels at once
	extra := map[string]string{
		"json-with-svg":      `{"a":"<svg"}`,
		"html-with-svg":      `<html><body><svg xmlns="http://www.w3.org/2000/svg"></svg></body></html>`,
		"xml-svg":            `<?xml version="1.0"?><svg xmlns="http://www.w3.org/2000/svg"/>`,
		"geojson-ndjson":     "{\"type\":\"Feature\"}\n{\"type\":\"Point\"}\n",
		"csv-json-lines":     "[1,2]\n[3,4]\n",
		"php-html":           "<?php echo 1; ?><html>",
		"shebang-python-csv": "#!/usr/bin/python\na,b\n1,2\n",
		"vcard-ical":         "BEGIN:VCARD\nBEGIN:VCALENDAR\n",
		"rtf-json":           `{\rtf1 {"a":1}}`,
		"gif-then-text":      "GIF89a plain text follows, no binary bytes",
		"pdf-then-zip":       "%PDF-1.4 PK\x03\x04",
		"bom-json":           "\xEF\xBB\xBF{\"a\":1}",
		"json-escaped-keys":  `{"\u0074ype":"Feature","k\u00e9y":[1,{"\u0061":null}],"log":{"ver\u0073ion":"1.2"}}`,
		"long-text-then-nul": strings.Repeat("plain text line, forty bytes long ......\n", 100) + "\x00\x01 binary tail " + strings.Repeat("x", 600),
		"long-text":          strings.Repeat("another plain text line of fifty bytes ..........\n", 90),
		"bom16-binary":       "\xFF\xFE\x00\x01\x02\x03",
		"empty":              "",
		"one-space":          " ",
		"riff-wav-avi":       "RIFF\x00\x00\x00\x00WAVEAVI LIST",
		"ftyp-heic-mif1":     "\x00\x00\x00\x18ftypheic\x00\x00\x00\x00mif1heic",
		"cafebabe-class":     "\xCA\xFE\xBA\xBE\x00\x00\x00\x34\x00\x10",
		"cafebabe-macho":     "\xCA\xFE\xBA\xBE\x00\x00\x00\x02\x00\x00\x00\x07",
		"tsv-csv":            "a,b\tc,d\n1,2\t3,4\n5,6\t7,8\n",
		"warc-text":          "WARC/1.0\r\nWARC-Type: warcinfo\r\n",
		"srt-vtt":            "1\n00:00:01,000 --> 00:00:02,000\nhello\n",
		"webvtt":             "WEBVTT\n\n00:01.000 --> 00:04.000\nhi",
		"xlsx-like-ole-head": "\xD0\xCF\x11\xE0\xA1\xB1\x1A\xE1" + string(make([]byte, 600)),
	}
	keys := []string{}
	for k := range extra {
		keys = append(keys, k)
	}
	sort.Strings(keys)
	for _, k := range keys {
		names = append(names, "poly:"+k)
		data = append(data, []byte(extra[k]))
	}
	return
}

type treeRec struct {
	Parent   int    `json:"parent"`
	Children []int  `json:"children"`
	Mime     string `json:"mime"`
	Ext      string `json:"ext"`
}

type detectTrace struct {
	Ev       string      `json:"ev"`
	Hid      int         `json:"hid"`
	Limit    int64       `json:"limit"`
	Len      int         `json:"len"`
	Entry    string      `json:"entry"`
	Sample   string      `json:"sample"`
	Consults [][2]int    `json:"consults"`
	Leaf     int         `json:"leaf"`
	Chain    [][2]string `json:"chain"`
	Full     string      `json:"full"`
	Recheck  [][2]int    `json:"recheck"`
	ParseOK  bool        `json:"parse_ok"`
	Base     string      `json:"base"`
	Params   []string    `json:"params"`
	AncPar   bool        `json:"anc_params"`
	Err      bool        `json:"err"`
	BufOK    bool        `json:"buf_unchanged"`
}

type treeTracer struct {
	ids      map[*mimetype.MIME]int
	nodes    []*mimetype.MIME // index id-1
	consults [][2]int
	leaf     int
	hids     map[string]int
	w        *bufio.Writer
	nrec     int
	ownDet   map[*mimetype.MIME]func([]byte, uint32) bool // detectors of the extensions this run registered
}

func (t *treeTracer) hook(ev mimetype.VerifEvent) {
	switch ev.Point {
	case "consult.post":
		ok := 0
		if ev.OK {
			ok = 1
		}
		t.consults = append(t.consults, [2]int{t.ids[ev.Child], ok})
	case "leaf":
		t.leaf = t.ids[ev.Node]
	}
}

func (t *treeTracer) emit(v any) {
	b, _ := stdjson.Marshal(v)
	t.w.Write(b)
	t.w.WriteByte('\n')
	t.nrec++
}

func (t *treeTracer) dumpTree() {
	tree := mimetype.VerifTree()
	t.ids = map[*mimetype.MIME]int{}
	t.nodes = t.nodes[:0]
	for i, n := range tree {
		t.ids[n.M] = i + 1
		t.nodes = append(t.nodes, n.M)
	}
	recs := make([]treeRec, len(tree))
	for i, n := range tree {
		r := treeRec{Mime: n.Mime, Ext: n.Ext, Children: []int{}}
		if n.Parent != nil {
			r.Parent = t.ids[n.Parent]
		}
		for _, c := range n.Children {
			r.Children = append(r.Children, t.ids[c])
		}
		recs[i] = r
	}
	t.emit(map[string]any{"ev": "tree", "nodes": recs})
}

func guardIntact(g []byte) bool {
	for _, b := range g {
		if b != 0xA5 {
			return false
		}
	}
	return true
}

// childrenOf reads the current children of a node from the live tree
func childrenOf(m *mimetype.MIME) []*mimetype.MIME {
	for _, n := range mimetype.VerifTree() {
		if n.M == m {
			return n.Children
		}
	}
	return nil
}

func (t *treeTracer) detect(sample string, in []byte, limit int64, entry string, tmpdir string) *detectTrace {
	hdr := in
	if limit > 0 && int64(len(in)) > limit {
		hdr = in[:limit]
	}
	key := fmt.Sprintf("%d|%x", limit, hdr)
	hid, ok := t.hids[key]
	if !ok {
		hid = len(t.hids) + 1
		t.hids[key] = hid
	}
	buf := exact(in)
	var guard []byte
	if entry == "Detect" && hid%2 == 0 {
		// a sub-slice of a larger array owned by the caller: the bytes behind len(buf) are the caller's too
		big := make([]byte, len(in)+32)
		copy(big, in)
		guard = big[len(in):]
		for i := range guard {
			guard[i] = 0xA5
		}
		buf = big[:len(in)]
	}
	t.consults = nil
	t.leaf = 0
	var res *mimetype.MIME
	var err error
	switch entry {
	case "Detect":
		res = mimetype.Detect(buf)
	case "DetectReader":
		res, err = mimetype.DetectReader(bytes.NewReader(buf))
	case "DetectFile":
		p := filepath.Join(tmpdir, "f")
		os.WriteFile(p, buf, 0o600)
		res, err = mimetype.DetectFile(p)
	}
	rec := &detectTrace{Ev: "detect", Hid: hid, Limit: limit, Len: len(hdr), Entry: entry, Sample: sample,
		Consults: t.consults, Leaf: t.leaf, Err: err != nil, BufOK: bytes.Equal(buf, in) && guardIntact(guard), Params: []string{}, Recheck: [][2]int{}}
	if rec.Consults == nil {
		rec.Consults = [][2]int{}
	}
	if res == nil {
		rec.Chain = [][2]string{}
		return rec
	}
	rec.Full = res.String()
	i := 0
	for m := res; m != nil && i < 64; m, i = m.Parent(), i+1 {
		base, params, perr := mime.ParseMediaType(m.String())
		if i == 0 {
			rec.ParseOK = perr == nil
			rec.Base = base
			for k := range params {
				rec.Params = append(rec.Params, k)
			}
			sort.Strings(rec.Params)
		} else if perr != nil || len(params) > 0 {
			rec.AncPar = true
		}
		if perr != nil {
			base = m.String()
		}
		rec.Chain = append(rec.Chain, [2]string{base, m.Extension()})
	}
	// independent re-invocation, outside the walk, on the examined header with the same limit: every
	// node of the reported path and ALL children of every node of that path (so that the
	// specification can recompute the first-match path without trusting the walk)
	if t.leaf > 0 && err == nil {
		leaf := t.nodes[t.leaf-1]
		h := exact(hdr)
		seen := map[int]bool{}
		add := func(m *mimetype.MIME) {
			id := t.ids[m]
			if id == 0 || seen[id] || m.Parent() == nil {
				return
			}
			seen[id] = true
			v := 0
			d := mimetype.VerifDetector(m)
			if own, ok := t.ownDet[m]; ok { // an extension: the function WE registered, not whatever the tree now holds for it
				d = own
			}
			if d(h, uint32(limit)) {
				v = 1
			}
			rec.Recheck = append(rec.Recheck, [2]int{id, v})
		}
		for m := leaf; m != nil; m = m.Parent() {
			add(m)
			for _, c := range childrenOf(m) {
				add(c)
			}
		}
	}
	return rec
}

type faultReader struct {
	data []byte
	n    int
}

var errInjected = fmt.Errorf("injected read fault")

func (f *faultReader) Read(p []byte) (int, error) {
	if f.n >= len(f.data) {
		return 0, errInjected
	}
	k := copy(p, f.data[f.n:])
	f.n += k
	return k, nil
}

func (t *treeTracer) detectErr(kind, tmpdir string) *detectTrace {
	t.consults = nil
	t.leaf = 0
	var res *mimetype.MIME
	var err error
	switch kind {
	case "DetectFile-missing":
		res, err = mimetype.DetectFile(filepath.Join(tmpdir, "does-not-exist"))
	case "DetectFile-dir":
		res, err = mimetype.DetectFile(tmpdir)
	case "DetectReader-fault0":
		res, err = mimetype.DetectReader(&faultReader{})
	case "DetectReader-fault5":
		res, err = mimetype.DetectReader(&faultReader{data: []byte("%PDF-")})
	}
	rec := &detectTrace{Ev: "detect", Hid: 0, Limit: 3072, Entry: kind, Sample: kind, Consults: [][2]int{}, Err: err != nil,
		BufOK: true, Params: []string{}, Recheck: [][2]int{}, Chain: [][2]string{}}
	if res != nil {
		rec.Full = res.String()
		for m, i := res, 0; m != nil && i < 64; m, i = m.Parent(), i+1 {
			base, params, perr := mime.ParseMediaType(m.String())
			if perr != nil {
				base = m.String()
			}
			if i == 0 {
				rec.ParseOK = perr == nil
				rec.Base = base
				for k := range params {
					rec.Params = append(rec.Params, k)
				}
			}
			rec.Chain = append(rec.Chain, [2]string{base, m.Extension()})
		}
	}
	return rec
}

func init() { cmds["treetrace"] = treetraceMain }

func treetraceMain(args []string) int {
	fs := flag.NewFlagSet("treetrace", flag.ExitOnError)
	outDir := fs.String("outdir", "", "directory for trace shards")
	shards := fs.Int("shards", 16, "trace files")
	corpus := fs.String("corpus", "", "corpus directory")
	seed := fs.Int64("seed", 1, "seed")
	cuts := fs.Int("cuts", 6, "random cut limits per sample in addition to the fixed ones")
	extRounds := fs.Int("ext-rounds", 3, "rounds with random extensions registered on the real tree")
	report := fs.String("out", "", "report path")
	fs.Parse(args)

	names, data := loadCorpus(*corpus)
	rep := newReport("treetrace")
	tmp, _ := os.MkdirTemp("", "vdrive-tree")
	defer os.RemoveAll(tmp)
	var detections, multi int64
	leaves := map[string]int{}
	for sh := 0; sh < *shards; sh++ {
		rng := rand.New(rand.NewSource(*seed*7919 + int64(sh)))
		f, err := os.Create(filepath.Join(*outDir, fmt.Sprintf("tree-%02d.ndjson", sh)))
		if err != nil {
			fmt.Fprintln(os.Stderr, err)
			return 2
		}
		t := &treeTracer{hids: map[string]int{}, w: bufio.NewWriterSize(f, 1<<20), ownDet: map[*mimetype.MIME]func([]byte, uint32) bool{}}
		mimetype.VerifResetTree()
		mimetype.VerifHook = t.hook
		t.dumpTree()
		initN := len(t.nodes)
		for round := 0; round <= *extRounds; round++ {
			if round > 0 {
				// register 1..4 extensions on real nodes (root, inner nodes, leaves, earlier extensions)
				mimetype.VerifHook = nil
				mimetype.VerifResetTree()
				t.emit(map[string]any{"ev": "reset"})
				t.nodes = t.nodes[:initN]
				for m, id := range t.ids {
					if id > initN {
						delete(t.ids, m)
					}
				}
				k := 1 + rng.Intn(4)
				for j := 0; j < k; j++ {
					pid := 1 + rng.Intn(len(t.nodes))
					if rng.Intn(3) == 0 {
						pid = 1
					}
					parent := t.nodes[pid-1]
					// detector: accept headers starting with the first byte(s) of a random sample, or all, or none
					var det func([]byte, uint32) bool
					switch rng.Intn(6) {
					case 5: // a signature that depends on how much of the input is visible (a trailer, a minimum size)
						det = func(raw []byte, _ uint32) bool { return len(raw) > 3300 }
					case 0:
						det = func([]byte, uint32) bool { return true }
					case 1:
						det = func([]byte, uint32) bool { return false }
					default:
						s := data[rng.Intn(len(data))]
						if rng.Intn(3) == 0 { // a signature that begins with (or is) the UTF-8 mark: below text/plain the header must be seen as given
							s = []byte("\xEF\xBB\xBF{\"a\":1}")
						}
						n := 1 + rng.Intn(3)
						if len(s) < n {
							n = len(s)
						}
						pre := append([]byte{}, s[:n]...)
						det = func(raw []byte, _ uint32) bool { return bytes.HasPrefix(raw, pre) }
					}
					name := fmt.Sprintf("ext/r%d-%d", round, j)
					if parent == mimetype.VerifRoot() && rng.Intn(2) == 0 {
						mimetype.Extend(det, name, ".x", "alias/"+name)
					} else {
						parent.Extend(det, name, ".x", "alias/"+name)
					}
					n := mimetype.Lookup(name)
					if n != nil {
						t.ownDet[n] = det
					}
					id := len(t.nodes) + 1
					t.ids[n] = id
					t.nodes = append(t.nodes, n)
					t.emit(map[string]any{"ev": "extend", "parent": pid, "node": id, "mime": name, "ext": ".x"})
				}
				mimetype.VerifHook = t.hook
			}
			for si := range data {
				if si%*shards != sh {
					continue
				}
				in := data[si]
				limits := []int64{0, 1, 3072, 4294967295}
				if len(in) > 1 {
					limits = append(limits, int64(len(in)-1), int64(len(in)), int64(len(in)+1))
				}
				for c := 0; c < *cuts && len(in) > 2; c++ {
					limits = append(limits, int64(1+rng.Intn(len(in))))
				}
				if round > 0 {
					limits = limits[:3]
				}
				for _, lim := range limits {
					if lim == 4294967295 && round > 0 {
						continue
					}
					mimetype.SetLimit(uint32(lim))
					entries := []string{"Detect"}
					if lim != 4294967295 {
						switch rng.Intn(4) {
						case 0:
							entries = append(entries, "DetectReader")
						case 1:
							entries = append(entries, "DetectFile")
						}
					}
					for _, entry := range entries {
						rec := t.detect(names[si], in, lim, entry, tmp)
						t.emit(rec)
						detections++
						nacc := 0
						for _, c := range rec.Consults {
							nacc += c[1]
						}
						if nacc >= 2 {
							multi++
						}
						leaves[rec.Full]++
					}
					// same header, different bytes beyond the limit / spare capacity: same hid
					if lim > 0 && int64(len(in)) > lim {
						v := append([]byte{}, in...)
						for i := int(lim); i < len(v); i++ {
							v[i] ^= 0x5A
						}
						t.emit(t.detect(names[si]+"+tail", v, lim, "Detect", tmp))
						detections++
					}
				}
			}
		}
		// error paths: the value must be exactly application/octet-stream (C02, C05)
		mimetype.SetLimit(3072)
		for _, e := range []string{"DetectFile-missing", "DetectFile-dir", "DetectReader-fault0", "DetectReader-fault5"} {
			t.emit(t.detectErr(e, tmp))
			detections++
		}
		mimetype.VerifHook = nil
		t.w.Flush()
		f.Close()
		rep.Extra[fmt.Sprintf("records_shard_%02d", sh)] = t.nrec
	}
	mimetype.VerifResetTree()
	rep.Evaluations = detections
	rep.Nontrivial = multi
	rep.Extra["samples_in_corpus"] = len(data)
	rep.Extra["distinct_results"] = len(leaves)
	rep.Extra["detections_with_two_or_more_accepting_consults"] = multi
	rep.sample(map[string]any{"corpus_names": names[:8]})
	rep.write(*report)
	return 0
}
