package main

import (
	"bufio"
	"encoding/hex"
	"encoding/json"
	"fmt"
	"os"
	"strings"
	"sync"

	"github.com/gabriel-vasile/mimetype"
)

// exact returns a copy of b whose capacity equals its length, so that any read
// past the end panics instead of touching spare capacity.
func exact(b []byte) []byte {
	c := make([]byte, len(b))
	copy(c, b)
	return c[:len(b):len(b)]
}

// chain returns the String() of m and all of its ancestors.
func chain(m *mimetype.MIME) []string {
	var out []string
	for i := 0; m != nil && i < 64; i++ {
		out = append(out, m.String())
		m = m.Parent()
	}
	return out
}

func baseType(s string) string {
	if i := strings.IndexByte(s, ';'); i >= 0 {
		return strings.TrimSpace(s[:i])
	}
	return s
}

// node lookup in the live tree by (mime, extension)
func findNode(mime, ext string) *mimetype.MIME {
	for _, n := range mimetype.VerifTree() {
		if n.Mime == mime && n.Ext == ext {
			return n.M
		}
	}
	return nil
}

// childIndex returns the position of the child named (mime, ext) under parent.
func childIndex(parent *mimetype.MIME, mime, ext string) int {
	for _, n := range mimetype.VerifTree() {
		if n.M == parent {
			for i, c := range n.Children {
				if c.String() == mime && c.Extension() == ext {
					return i
				}
			}
		}
	}
	return -1
}

// Violation is one property-level failure observed on the real code.
type Violation struct {
	Property string `json:"property"`
	Kind     string `json:"kind"`
	Input    string `json:"input_hex,omitempty"`
	Text     string `json:"input_text,omitempty"`
	Limit    int64  `json:"limit"`
	Detail   string `json:"detail"`
	Key      string `json:"key"` // stable identity for known-findings matching
}

func mkViolation(prop, kind string, in []byte, limit int64, detail string) Violation {
	v := Violation{Property: prop, Kind: kind, Input: hex.EncodeToString(in), Limit: limit, Detail: detail}
	if len(in) <= 200 {
		v.Text = fmt.Sprintf("%q", in)
	}
	v.Key = fmt.Sprintf("%s|%s|%s|%d", prop, kind, v.Input, limit)
	return v
}

// Report is what every subcommand writes for the orchestrator.
type Report struct {
	mu          sync.Mutex
	Sub         string           `json:"sub"`
	Evaluations int64            `json:"evaluations"`
	Nontrivial  int64            `json:"distinct_nontrivial"`
	Drift       int64            `json:"drift"`
	DriftSample []string         `json:"drift_samples,omitempty"`
	OracleBad   int64            `json:"oracle_mismatch"`
	OracleSmpl  []string         `json:"oracle_samples,omitempty"`
	Violations  []Violation      `json:"violations"`
	NViol       map[string]int64 `json:"violation_counts"`
	Samples     []any            `json:"samples"`
	Extra       map[string]any   `json:"extra,omitempty"`
}

func newReport(sub string) *Report {
	return &Report{Sub: sub, NViol: map[string]int64{}, Extra: map[string]any{}, Violations: []Violation{}, Samples: []any{}}
}

const maxKeptViolations = 2000

func (r *Report) violate(v Violation) {
	r.mu.Lock()
	defer r.mu.Unlock()
	r.NViol[v.Property]++
	if len(r.Violations) < maxKeptViolations {
		r.Violations = append(r.Violations, v)
	}
}

func (r *Report) drift(s string) {
	r.mu.Lock()
	defer r.mu.Unlock()
	r.Drift++
	if len(r.DriftSample) < 20 {
		r.DriftSample = append(r.DriftSample, s)
	}
}

func (r *Report) oracle(s string) {
	r.mu.Lock()
	defer r.mu.Unlock()
	r.OracleBad++
	if len(r.OracleSmpl) < 20 {
		r.OracleSmpl = append(r.OracleSmpl, s)
	}
}

func (r *Report) sample(s any) {
	r.mu.Lock()
	defer r.mu.Unlock()
	if len(r.Samples) < 12 {
		r.Samples = append(r.Samples, s)
	}
}

func (r *Report) write(path string) {
	f, err := os.Create(path)
	if err != nil {
		fmt.Fprintln(os.Stderr, "cannot write report:", err)
		os.Exit(2)
	}
	defer f.Close()
	w := bufio.NewWriter(f)
	enc := json.NewEncoder(w)
	enc.SetIndent("", " ")
	if err := enc.Encode(r); err != nil {
		fmt.Fprintln(os.Stderr, "cannot encode report:", err)
		os.Exit(2)
	}
	w.Flush()
}

// tlcVectorLines streams the PrintT(ToJson(..)) lines of a TLC log: each is a TLA+
// string literal holding a JSON object.
func tlcVectorLines(path string, fn func(raw []byte)) error {
	f, err := os.Open(path)
	if err != nil {
		return err
	}
	defer f.Close()
	sc := bufio.NewScanner(f)
	sc.Buffer(make([]byte, 1<<20), 1<<26)
	for sc.Scan() {
		line := sc.Bytes()
		if len(line) < 4 || line[0] != '"' || line[1] != '{' {
			continue
		}
		var s string
		if err := json.Unmarshal(line, &s); err != nil {
			return fmt.Errorf("bad vector line %.80q: %v", line, err)
		}
		fn([]byte(s))
	}
	return sc.Err()
}

// tlcArrayLines is tlcVectorLines for PrintT(ToJson(<sequence>)) lines.
func tlcArrayLines(path string, fn func(raw []byte)) error {
	f, err := os.Open(path)
	if err != nil {
		return err
	}
	defer f.Close()
	sc := bufio.NewScanner(f)
	sc.Buffer(make([]byte, 1<<20), 1<<26)
	for sc.Scan() {
		line := sc.Bytes()
		if len(line) < 4 || line[0] != '"' || line[1] != '[' {
			continue
		}
		var s string
		if err := json.Unmarshal(line, &s); err != nil {
			return fmt.Errorf("bad vector line %.80q: %v", line, err)
		}
		fn([]byte(s))
	}
	return sc.Err()
}

func ints2bytes(a []int) []byte {
	b := make([]byte, len(a))
	for i, v := range a {
		b[i] = byte(v)
	}
	return exact(b)
}
