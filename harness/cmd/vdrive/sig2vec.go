package main

import (
	stdjson "encoding/json"
	"flag"
	"fmt"
	"os"
	"strings"

	"github.com/gabriel-vasile/mimetype"
)

// sig2vec concretises the token strings of MC_XmlSig.tla (xmlCheck, Vtt, Srt) and replays
// them on the real detectors of the tree (atom = both-sided signature, rss = local name
// only, gml = namespace only, vtt, srt) and through Detect. Disagreement with the model is
// drift; a call that does not return is a C01 violation.

func init() { cmds["sig2vec"] = sig2vecMain }

var xmlTok = map[string]string{"x": "y", "ws": " ", "pad": strings.Repeat("y", 236)}
var vttTok = map[string]string{"bom": "\xEF\xBB\xBF", "W": "WEBVTT", "lf": "\n", "cr": "\r", "sp": " ", "tab": "\t", "x": "y"}
var srtTok = map[string]string{"one": "1", "two": "2", "lf": "\n", "cr": "\r", "txt": "Hello there",
	"ts": "00:02:16,612 --> 00:02:19,376", "tsrev": "00:02:19,376 --> 00:02:16,612", "tsdot": "00:02:16.612 --> 00:02:19.376",
	"tsshort": "0:02:16,612 --> 00:02:19,376", "tsbad": "00:02:16,612 --> 00:99:19,376"}

func sig2vecMain(args []string) int {
	fs := flag.NewFlagSet("sig2vec", flag.ExitOnError)
	in := fs.String("in", "", "TLC log")
	out := fs.String("out", "", "report")
	fs.Parse(args)
	rep := newReport("sig2vec")
	det := func(mime, ext string) func([]byte, uint32) bool {
		n := findNode(mime, ext)
		if n == nil {
			fmt.Fprintln(os.Stderr, "node not found", mime)
			os.Exit(2)
		}
		return mimetype.VerifDetector(n)
	}
	atom, rss, gml := det("application/atom+xml", ".atom"), det("application/rss+xml", ".rss"), det("application/gml+xml", ".gml")
	vtt, srt := det("text/vtt", ".vtt"), det("application/x-subrip", ".srt")
	mimetype.SetLimit(3072)
	var n, accepted int64
	call := func(name string, d func([]byte, uint32) bool, raw []byte, model bool) {
		ret, got, msg := safeCall(func() bool { return d(raw, 3072) })
		n++
		if !ret {
			rep.violate(mkViolation("C01", "panic-in-"+name+"-detector", raw, 3072, msg))
			return
		}
		if got {
			accepted++
		}
		if got != model {
			rep.drift(fmt.Sprintf("%s detector on %.120q (%d bytes): real %v, model %v", name, raw, len(raw), got, model))
		}
	}
	err := tlcVectorLines(*in, func(b []byte) {
		var v struct {
			Fam  string   `json:"fam"`
			T    []string `json:"t"`
			Both bool     `json:"both"`
			L    bool     `json:"l"`
			N    bool     `json:"n"`
			OK   bool     `json:"ok"`
		}
		if err := stdjson.Unmarshal(b, &v); err != nil {
			fmt.Fprintln(os.Stderr, "bad vector", err)
			os.Exit(2)
		}
		var sb strings.Builder
		switch v.Fam {
		case "xml":
			for kind, d := range map[string]func([]byte, uint32) bool{"both": atom, "l": rss, "n": gml} {
				sb.Reset()
				for _, t := range v.T {
					switch t {
					case "L":
						sb.WriteString(map[string]string{"both": "<feed", "l": "<rss", "n": "<zzz"}[kind])
					case "N":
						// 35 bytes for the atom namespace; the rss / gml runs use their own strings of the same role
						sb.WriteString(map[string]string{"both": `xmlns="http://www.w3.org/2005/Atom"`, "l": `xmlns="http://purl.org/rss/1.0/mod"`, "n": `xmlns:gml="http://www.opengis.net/gml"`}[kind])
					default:
						sb.WriteString(xmlTok[t])
					}
				}
				model := map[string]bool{"both": v.Both, "l": v.L, "n": v.N}[kind]
				raw := exact([]byte(sb.String()))
				if kind == "both" { // token lengths of the model are those of the atom signature
					call("atom", d, raw, model)
				}
				if kind != "both" {
					// lengths differ from the model's constants: only documents short enough for the window not to matter
					if len(raw) <= 480 {
						call(map[string]string{"l": "rss", "n": "gml"}[kind], d, raw, model)
					}
				}
				if ret, _, msg := safeCall(func() bool { return mimetype.Detect(raw) != nil }); !ret {
					rep.violate(mkViolation("C01", "panic-in-detect", raw, 3072, msg))
				}
			}
		case "vtt":
			for _, t := range v.T {
				sb.WriteString(vttTok[t])
			}
			call("vtt", vtt, exact([]byte(sb.String())), v.OK)
		case "srt":
			for _, t := range v.T {
				sb.WriteString(srtTok[t])
			}
			call("srt", srt, exact([]byte(sb.String())), v.OK)
		}
	})
	if err != nil || n == 0 {
		fmt.Fprintln(os.Stderr, "no vectors", err)
		return 2
	}
	rep.Evaluations = n
	rep.Nontrivial = accepted
	rep.Extra["detector_calls"] = n
	rep.Extra["accepted"] = accepted
	rep.write(*out)
	return 0
}
