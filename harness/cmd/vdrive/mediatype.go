package main

import (
	stdjson "encoding/json"
	"flag"
	"fmt"
	"mime"
	"os"
	"strings"

	"github.com/gabriel-vasile/mimetype"
)

// registry dumps the tree for MediaType.tla; mtqueries replays its queries.

type regNode struct {
	Mime    string   `json:"mime"`
	Aliases []string `json:"aliases"`
	Parent  int      `json:"parent"`
}

func init() {
	cmds["registry"] = registryMain
	cmds["mtqueries"] = mtqueriesMain
}

func registryMain(args []string) int {
	fs := flag.NewFlagSet("registry", flag.ExitOnError)
	out := fs.String("out", "", "output json")
	fs.Parse(args)
	tree := mimetype.VerifTree()
	idx := map[*mimetype.MIME]int{}
	for i, n := range tree {
		idx[n.M] = i + 1
	}
	var regs []regNode
	for _, n := range tree {
		r := regNode{Mime: n.Mime, Aliases: n.Aliases}
		if r.Aliases == nil {
			r.Aliases = []string{}
		}
		if n.Parent != nil {
			r.Parent = idx[n.Parent]
		}
		regs = append(regs, r)
	}
	b, _ := stdjson.Marshal(regs)
	if err := os.WriteFile(*out, b, 0o644); err != nil {
		fmt.Fprintln(os.Stderr, err)
		return 2
	}
	return 0
}

type mtDeco struct {
	C string `json:"c"`
	L string `json:"l"`
	T string `json:"t"`
	P string `json:"p"`
}

type mtQuery struct {
	Op   string `json:"op"`
	Node int    `json:"node"`
	Name string `json:"name"`
	DL   mtDeco `json:"dl"`
	DR   mtDeco `json:"dr"`
	Exp  bool   `json:"exp"`
}

func wsOf(k string) string {
	switch k {
	case "sp":
		return "  "
	case "tab":
		return "\t"
	case "both":
		return " \t "
	}
	return ""
}

func decorate(name string, d mtDeco) string {
	s := name
	switch d.C {
	case "upper":
		s = strings.ToUpper(s)
	case "mixed":
		s = recase(s, "MiXed")
	}
	switch d.P {
	case "charset":
		s += "; charset=utf-8"
	case "quoted":
		s += `; title="a;b/c d"`
	case "two":
		s += "; charset=iso-8859-1; q=0.8"
	case "wscharset": // optional whitespace before the ';' (RFC 9110 OWS)
		s += " ; charset=utf-8"
	case "tabparam":
		s += "\t;a=b"
	case "rfc2231":
		s += "; charset*=utf-8''%E9"
	case "long":
		s += "; comment=" + strings.Repeat("a", 300)
	}
	return wsOf(d.L) + s + wsOf(d.T)
}

func mtqueriesMain(args []string) int {
	fs := flag.NewFlagSet("mtqueries", flag.ExitOnError)
	in := fs.String("in", "", "TLC log")
	out := fs.String("out", "", "report")
	corpus := fs.String("corpus", "", "corpus directory: every sample is detected and the C15 clauses on results and their ancestors are evaluated")
	fs.Parse(args)
	rep := newReport("mtqueries")
	tree := mimetype.VerifTree()
	var n, dropped, negatives, late int64
	ops := map[string]int{}
	err := tlcVectorLines(*in, func(b []byte) {
		var q mtQuery
		if err := stdjson.Unmarshal(b, &q); err != nil {
			fmt.Fprintln(os.Stderr, "bad query", err)
			os.Exit(2)
		}
		left := decorate(q.Name, q.DL)
		if _, _, err := mime.ParseMediaType(left); err != nil {
			dropped++
			return
		}
		n++
		ops[q.Op]++
		switch q.Op {
		case "is":
			node := tree[q.Node-1].M
			if !q.Exp {
				negatives++
			}
			if got := node.Is(left); got != q.Exp {
				rep.violate(Violation{Property: "C15", Kind: "is", Text: fmt.Sprintf("%s.Is(%q)", node.String(), left), Detail: fmt.Sprintf("got %v, expected %v", got, q.Exp), Key: fmt.Sprintf("C15|is|%s|%q", node.String(), left)})
			}
		case "eq":
			right := decorate(q.Name, q.DR)
			if _, _, err := mime.ParseMediaType(right); err != nil {
				dropped++
				return
			}
			if !mimetype.EqualsAny(left, "no/match", right) {
				rep.violate(Violation{Property: "C15", Kind: "equalsany", Text: fmt.Sprintf("EqualsAny(%q, .., %q)", left, right), Detail: "false for two decorations of the same type", Key: fmt.Sprintf("C15|eq|%q|%q", left, right)})
			}
			if mimetype.EqualsAny(left, "no/match", right+"x") && !strings.Contains(right, ";") {
				rep.violate(Violation{Property: "C15", Kind: "equalsany-prefix", Text: fmt.Sprintf("EqualsAny(%q, %q)", left, right+"x"), Detail: "true for a different type", Key: fmt.Sprintf("C15|eqp|%q", left)})
			}
		case "late":
			late++
			name := fmt.Sprintf("%s-%d-%v", q.Name, q.Node, q.Exp)
			if q.Exp && mimetype.Lookup(name) != nil {
				fmt.Fprintln(os.Stderr, "late name already registered:", name)
				os.Exit(2)
			}
			det := func([]byte, uint32) bool { return false }
			if strings.Contains(q.Name, "alias") {
				// several aliases, not in sorted order; every one of them must resolve
				others := []string{name + "-zz", name + "-aa", name + "-mm", name + "-bb", name + "-yy", name + "-cc"}
				all := append([]string{others[0], others[1], name}, others[2:]...)
				tree[q.Node-1].M.Extend(det, name+"-primary", ".late", all...)
				for _, a := range others {
					if got := mimetype.Lookup(a); got == nil || !got.Is(a) || got.String() != name+"-primary" {
						rep.violate(Violation{Property: "C15", Kind: "lookup-after-extend", Text: fmt.Sprintf("Lookup(%q): one of %d aliases registered by one Extend under %s", a, len(all), tree[q.Node-1].M.String()),
							Detail: fmt.Sprintf("got %v", got), Key: "C15|late|" + a})
					}
				}
			} else {
				tree[q.Node-1].M.Extend(det, name, ".late")
			}
			if strings.Contains(q.Name, "alias") && q.Exp {
				// two formats whose alias lists are windows of ONE caller-owned array with spare capacity:
				// using the first format must not disturb the names of the second
				arena := make([]string, 0, 16)
				arena = append(arena, name+"-w1a", name+"-w1b")
				tree[q.Node-1].M.Extend(det, name+"-w1", ".w1", arena[0:2]...)
				arena = append(arena, name+"-w2a", name+"-w2b")
				tree[q.Node-1].M.Extend(det, name+"-w2", ".w2", arena[2:4]...)
				// ... and ONE table passed to two registrations (it names the second format itself)
				tbl := []string{name + "-t-a", name + "-t2", name + "-t-b"}
				tree[q.Node-1].M.Extend(det, name+"-t1", ".t1", tbl...)
				tree[q.Node-1].M.Extend(det, name+"-t2", ".t2", tbl...)
				if o := mimetype.Lookup(name + "-t1"); o == nil || !o.Is(name+"-t2") {
					rep.violate(Violation{Property: "C15", Kind: "shared-alias-table", Text: fmt.Sprintf("%s-t1.Is(%q): the name is one of its registered aliases", name, name+"-t2"), Detail: fmt.Sprintf("false after a second Extend was given the same table; the caller's table now reads %q", tbl), Key: "C15|table-own|" + name})
				}
				for _, a := range []string{name + "-t-a", name + "-t-b"} {
					for _, owner := range []string{name + "-t1", name + "-t2"} {
						if o := mimetype.Lookup(owner); o == nil || !o.Is(a) {
							rep.violate(Violation{Property: "C15", Kind: "shared-alias-table", Text: fmt.Sprintf("%s.Is(%q) after the same alias table was passed to two Extends", owner, a), Detail: fmt.Sprintf("false; the caller's table now reads %q", tbl), Key: "C15|table|" + owner + a})
						}
					}
				}
				n1 := mimetype.Lookup(name + "-w1")
				if n1 != nil {
					_ = n1.Is(name + "-w1a")
					_ = n1.Is("no/match")
				}
				for _, a := range []string{name + "-w2a", name + "-w2b"} {
					if got := mimetype.Lookup(a); got == nil || got.String() != name+"-w2" || !got.Is(a) {
						rep.violate(Violation{Property: "C15", Kind: "alias-window-disturbed", Text: fmt.Sprintf("Lookup(%q) after Is on a format whose alias list is the neighbouring window of the same array", a),
							Detail: fmt.Sprintf("got %v; the caller's array now reads %q", got, arena[:cap(arena)][:6]), Key: "C15|arena|" + a})
					}
				}
			}
			if got := mimetype.Lookup(name); got == nil || !got.Is(name) {
				rep.violate(Violation{Property: "C15", Kind: "lookup-after-extend", Text: fmt.Sprintf("Lookup(%q) after Extend under %s (looked up before: %v)", name, tree[q.Node-1].M.String(), q.Exp),
					Detail: fmt.Sprintf("got %v", got), Key: "C15|late|" + name})
			}
		case "lookup":
			got := mimetype.Lookup(q.Name)
			want := tree[q.Node-1].M
			if got != want {
				gs := "nil"
				if got != nil {
					gs = got.String() + got.Extension()
				}
				rep.violate(Violation{Property: "C15", Kind: "lookup", Text: fmt.Sprintf("Lookup(%q)", q.Name), Detail: fmt.Sprintf("got %s, expected %s%s (first in depth-first order)", gs, want.String(), want.Extension()), Key: "C15|lookup|" + q.Name})
			} else if !got.Is(q.Name) {
				rep.violate(Violation{Property: "C15", Kind: "lookup-is", Text: fmt.Sprintf("Lookup(%q).Is(%q)", q.Name, q.Name), Detail: "false", Key: "C15|lookupis|" + q.Name})
			}
			if mimetype.Lookup(q.Name+"x") != nil && mimetype.Lookup(q.Name[:len(q.Name)-1]) != nil {
				_ = 0
			}
		}
		if n%9973 == 1 {
			rep.sample(map[string]any{"op": q.Op, "left": left, "expected": q.Exp})
		}
	})
	if err != nil || n == 0 {
		fmt.Fprintln(os.Stderr, "no queries", err)
		return 2
	}
	rep.Evaluations = n
	rep.Nontrivial = negatives + int64(ops["eq"])
	// an extension that registers, as ITS alias, a name another format already carries: both formats Is that name
	for _, t := range tree {
		if len(t.Aliases) == 0 || t.Parent == nil {
			continue
		}
		shared := t.Aliases[0]
		t.M.Extend(func([]byte, uint32) bool { return false }, "verif/shares-an-alias", ".sha", shared)
		ext := mimetype.Lookup("verif/shares-an-alias")
		for _, who := range []*mimetype.MIME{t.M, ext} {
			if who == nil || !who.Is(shared) || !who.Is(strings.ToUpper(shared)+"; q=1") {
				rep.violate(Violation{Property: "C15", Kind: "shared-alias", Text: fmt.Sprintf("%v.Is(%q) after an extension registered the same alias", who, shared), Detail: "false", Key: "C15|shared-alias|" + shared})
			}
		}
		if l := mimetype.Lookup(shared); l == nil || !l.Is(shared) {
			rep.violate(Violation{Property: "C15", Kind: "shared-alias-lookup", Text: fmt.Sprintf("Lookup(%q)", shared), Detail: fmt.Sprintf("%v", l), Key: "C15|shared-alias-lookup|" + shared})
		}
		n++
		break
	}
	// a history: decorated spellings, then several hundred other distinct strings, then the same spellings again
	{
		html := mimetype.Lookup("text/html")
		probes := []string{"text/html; charset=utf-8", "TEXT/HTML ; q=0.5", " text/html"}
		ask := func(stage string) {
			for _, p := range probes {
				if html == nil || !html.Is(p) || !mimetype.EqualsAny(p, "image/png", "text/html") || html.Is("image/png; x="+p[:4]) {
					rep.violate(Violation{Property: "C15", Kind: "answers-depend-on-history", Text: fmt.Sprintf("text/html against %q (%s)", p, stage), Detail: "Is / EqualsAny changed their answer", Key: "C15|history|" + p + stage})
				}
			}
		}
		ask("first")
		for i := 0; i < 400; i++ {
			s := fmt.Sprintf("application/x-filler-%d; n=%d", i, i)
			_ = html.Is(s)
			_ = mimetype.EqualsAny(s, "text/plain")
		}
		ask("after 400 other strings")
		n += 6
	}
	mimetype.VerifResetTree()
	var corpusResults, withAliasedAncestor int64
	if *corpus != "" {
		reg := registeredSet()
		_, data := loadCorpus(*corpus)
		for _, d := range data {
			for _, lim := range []uint32{3072, 0} {
				mimetype.SetLimit(lim)
				m := mimetype.Detect(exact(d))
				c02Check(rep, m, nil, d, int64(lim), reg)
				corpusResults++
				for p := m.Parent(); p != nil; p = p.Parent() {
					if node := findNode(baseType(p.String()), p.Extension()); node != nil && len(mimetype.VerifAliases(node)) > 0 {
						withAliasedAncestor++
						break
					}
				}
			}
		}
		mimetype.SetLimit(3072)
	}
	rep.Extra["corpus_results_checked"] = corpusResults
	rep.Extra["results_with_an_aliased_ancestor"] = withAliasedAncestor
	rep.Extra["late_registrations"] = late
	rep.Extra["queries"] = n
	rep.Extra["by_op"] = ops
	rep.Extra["negative_is_queries"] = negatives
	rep.Extra["ill_formed_decorations_dropped"] = dropped
	rep.write(*out)
	return 0
}
