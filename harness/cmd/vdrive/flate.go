package main

import (
	"compress/flate"
	"io"
)

var flateW *flate.Writer

// sharedFlate returns a deflate writer (allocated once: flate.NewWriter is expensive).
func sharedFlate(w io.Writer) *flate.Writer {
	if flateW == nil {
		flateW, _ = flate.NewWriter(w, flate.BestSpeed)
	} else {
		flateW.Reset(w)
	}
	return flateW
}
