package main

import (
	"bytes"
	stdjson "encoding/json"
	"flag"
	"fmt"
	"math/rand"
	"os"
	"runtime"
	"strconv"
	"strings"
	"sync"
	"time"

	"github.com/gabriel-vasile/mimetype"
)

// sysreplay replays behaviours of spec/Sys.tla (printed by MC_Sys!DumpHist) on the real
// package.  With one goroutine the calls are made directly; with several, the hook
// points of the verif build are used as scheduler gates and goroutines are released
// in exactly the order of the TLC behaviour.

type sysAct struct {
	G     string   `json:"g"`
	A     string   `json:"a"`
	X     string   `json:"x"`
	L     int64    `json:"l"`
	V     int64    `json:"v"`
	E     string   `json:"e"`
	Nm    string   `json:"nm"`
	P     string   `json:"p"`
	Acc   []string `json:"acc"`
	Al    []string `json:"al"`
	Name  string   `json:"name"`
	Path  []string `json:"path"`
	Found string   `json:"found"`
	FP    string   `json:"fp"`
}

type sysHist struct {
	H  []sysAct            `json:"h"`
	Ch map[string][]string `json:"ch"`
}

func goid() int64 {
	var buf [64]byte
	n := runtime.Stack(buf[:], false)
	// "goroutine 123 ["
	s := strings.TrimPrefix(string(buf[:n]), "goroutine ")
	i := strings.IndexByte(s, ' ')
	id, _ := strconv.ParseInt(s[:i], 10, 64)
	return id
}

var gatePoints = map[string]bool{
	"detect.loaded": true, "detect.rlocked": true, "detect.done": true,
	"ext.built": true, "ext.locked": true, "ext.published": true,
	"lookup.rlocked": true, "lookup.done": true,
}

// expected gate after each model action ("" = the call returns)
var parkAfter = map[string]string{
	"DLoad": "detect.loaded", "DRLock": "detect.rlocked", "DWalk": "detect.done", "DRUnlock": "",
	"SStore": "",
	"EBuild": "ext.built", "ELock": "ext.locked", "EPub": "ext.published", "EUnlock": "",
	"LRLock": "lookup.rlocked", "LSearch": "lookup.done", "LRUnlock": "",
}

type parkMsg struct {
	proc  string
	point string // gate name, "ret" when a call returned, "start" when parked before the next call
	ev    mimetype.VerifEvent
}

type aliasOwner struct {
	backing []string // full backing array incl. spare cells holding sentinels
	n       int
}

const aliasSentinel = "spare/sentinel"

func (a *aliasOwner) intact() bool {
	for i := a.n; i < len(a.backing); i++ {
		if a.backing[i] != aliasSentinel {
			return false
		}
	}
	return true
}

type replayer struct {
	m       *sysMap
	rep     *Report
	rng     *rand.Rand
	owners  []*aliasOwner
	earlier []earlierRes
}

type earlierRes struct {
	m     *mimetype.MIME
	str   string
	ext   string
	chain []string
}

func (r *replayer) mkAliases(al []string) ([]string, *aliasOwner) {
	extra := []int{0, 1, 8}[r.rng.Intn(3)]
	b := make([]string, len(al)+extra)
	for i, a := range al {
		b[i] = r.m.realName(a)
	}
	for i := len(al); i < len(b); i++ {
		b[i] = aliasSentinel
	}
	o := &aliasOwner{backing: b, n: len(al)}
	return b[:len(al)], o
}

func histText(h *sysHist) string {
	var b strings.Builder
	for _, a := range h.H {
		switch a.A {
		case "DLoad":
			fmt.Fprintf(&b, "%s:Detect(%s) ", a.G, a.X)
		case "SStore":
			fmt.Fprintf(&b, "%s:SetLimit(%d) ", a.G, a.V)
		case "EBuild":
			fmt.Fprintf(&b, "%s:Extend(%s on %s acc=%v al=%v) ", a.G, a.E, a.P, a.Acc, a.Al)
		case "LRLock":
			fmt.Fprintf(&b, "%s:Lookup(%s) ", a.G, a.Name)
		default:
			fmt.Fprintf(&b, "%s:%s ", a.G, a.A)
		}
	}
	return b.String()
}

func (r *replayer) fail(props []string, kind string, h *sysHist, raw []byte, detail string) {
	for _, p := range props {
		v := Violation{Property: p, Kind: kind, Detail: detail, Text: histText(h)}
		v.Key = fmt.Sprintf("%s|%s|%s", p, kind, v.Text)
		_ = raw
		r.rep.violate(v)
	}
}

// doStart performs the API call that a start action stands for and returns its result.
type callResult struct {
	act   sysAct
	mime  *mimetype.MIME // Detect result or Lookup result
	input []byte
}

func (r *replayer) call(a sysAct) callResult {
	switch a.A {
	case "SStore":
		mimetype.SetLimit(uint32(a.V))
		return callResult{act: a}
	case "DLoad":
		in := exact(r.m.inputs[a.X])
		var res *mimetype.MIME
		if r.rng.Intn(3) == 0 {
			var err error
			res, err = mimetype.DetectReader(bytes.NewReader(in))
			if err != nil {
				fmt.Fprintln(os.Stderr, "unexpected reader error", err)
				os.Exit(2)
			}
		} else {
			res = mimetype.Detect(in)
		}
		if !bytes.Equal(in, r.m.inputs[a.X]) {
			r.rep.violate(Violation{Property: "C04", Kind: "caller-buffer-modified", Key: "C04|buffer|" + a.X, Detail: "Detect modified its input " + a.X})
		}
		return callResult{act: a, mime: res, input: in}
	case "EBuild":
		al, owner := r.mkAliases(a.Al)
		r.owners = append(r.owners, owner)
		parent := r.m.node[a.P]
		if parent == nil {
			return callResult{act: a}
		}
		det := extDetector(a.Acc)
		name := r.m.realName(a.E)
		if a.P == "root" && r.rng.Intn(2) == 0 {
			mimetype.Extend(det, name, "."+a.E, al...)
		} else {
			parent.Extend(det, name, "."+a.E, al...)
		}
		return callResult{act: a}
	case "LRLock":
		return callResult{act: a, mime: mimetype.Lookup(r.m.realName(a.Name))}
	}
	fmt.Fprintln(os.Stderr, "not a start action:", a.A)
	os.Exit(2)
	return callResult{}
}

// bindExt records the real node of a freshly published extension: the pointer seen by the
// ext.published hook (type strings need not be unique, so Lookup cannot be used).
func (r *replayer) bindExt(a sysAct) bool {
	lastPubMu.Lock()
	n := lastPub
	lastPub = nil
	lastPubMu.Unlock()
	if n == nil {
		return false
	}
	// the node must really be in the tree
	inTree := false
	for _, t := range mimetype.VerifTree() {
		if t.M == n {
			inTree = true
		}
	}
	if !inTree {
		return false
	}
	r.m.node[a.E] = n
	r.m.id[n] = a.E
	return true
}

var (
	lastPubMu sync.Mutex
	lastPub   *mimetype.MIME
)

func notePublished(ev mimetype.VerifEvent) {
	if ev.Point == "ext.published" {
		lastPubMu.Lock()
		lastPub = ev.Child
		lastPubMu.Unlock()
	}
}

func (r *replayer) checkResult(h *sysHist, cr callResult, expPath []string, expFound, expFP string, hadExt bool, conc bool) {
	props := []string{"C03"}
	if hadExt {
		props = append(props, "C14")
	}
	if conc {
		props = append(props, "C06")
	}
	switch cr.act.A {
	case "DLoad":
		got := bareChain(cr.mime)
		want := r.m.modelChain(expPath)
		if !eqStrings(got, want) {
			r.fail(props, "detect-path", h, cr.input, fmt.Sprintf("Detect(%s): real chain %v, first-match path of the model %v", cr.act.X, got, want))
		}
		leaf := r.m.node[expPath[len(expPath)-1]]
		if leaf != nil && cr.mime.Extension() != leaf.Extension() {
			r.fail(props, "detect-extension", h, cr.input, fmt.Sprintf("Detect(%s): extension %q, expected %q", cr.act.X, cr.mime.Extension(), leaf.Extension()))
		}
		if leaf != nil && !cr.mime.Is(leaf.String()) {
			r.fail([]string{"C15"}, "result-is-own-type", h, cr.input, "result.Is(type of the matched node) is false")
		}
		r.earlier = append(r.earlier, earlierRes{m: cr.mime, str: cr.mime.String(), ext: cr.mime.Extension(), chain: chain(cr.mime)})
	case "LRLock":
		lp := []string{"C14"}
		if conc {
			lp = append(lp, "C06")
		}
		gotID := "none"
		gotFP := "none"
		if cr.mime != nil {
			if id, ok := r.m.id[cr.mime]; ok {
				gotID = id
			} else {
				gotID = "?" + cr.mime.String()
			}
			if p := cr.mime.Parent(); p != nil {
				if id, ok := r.m.id[p]; ok {
					gotFP = id
				} else {
					gotFP = "?" + p.String()
				}
			}
		}
		if gotID != expFound || (expFound != "none" && gotFP != expFP) {
			r.fail(lp, "lookup", h, nil, fmt.Sprintf("Lookup(%s): real (%s, parent %s), model (%s, parent %s)", cr.act.Name, gotID, gotFP, expFound, expFP))
		}
		if cr.mime != nil && !cr.mime.Is(r.m.realName(cr.act.Name)) {
			r.fail([]string{"C15"}, "lookup-is", h, nil, fmt.Sprintf("Lookup(%s).Is(%s) is false", cr.act.Name, cr.act.Name))
		}
	}
}

func (r *replayer) afterOp(h *sysHist) {
	for _, o := range r.owners {
		if !o.intact() {
			r.fail([]string{"C06"}, "caller-alias-array-written", h, nil, fmt.Sprintf("the spare capacity of a caller-owned alias slice was written: %q", o.backing))
			for i := o.n; i < len(o.backing); i++ {
				o.backing[i] = aliasSentinel
			}
		}
	}
	for _, e := range r.earlier {
		if e.m.String() != e.str || e.m.Extension() != e.ext || !eqStrings(chain(e.m), e.chain) {
			r.fail([]string{"C14"}, "earlier-result-changed", h, nil, fmt.Sprintf("a value returned earlier changed: was %v, now %v", e.chain, chain(e.m)))
		}
	}
}

func (r *replayer) checkFinal(h *sysHist, conc bool) {
	got := r.m.projectedChildren()
	props := []string{"C14"}
	if conc {
		props = append(props, "C06")
	}
	for id, want := range h.Ch {
		if _, bound := r.m.node[id]; !bound {
			continue
		}
		if !eqStrings(got[id], want) {
			r.fail(props, "tree-order", h, nil, fmt.Sprintf("children of %s: real %v, model %v", id, got[id], want))
		}
	}
}

// ---------------------------------------------------------------- direct (1 goroutine)
// noteNames records which extensions are registered under another extension's type string.
func (r *replayer) noteNames(h *sysHist) {
	for _, a := range h.H {
		if a.A == "EBuild" && a.Nm != "" && a.Nm != a.E {
			r.m.alias[a.E] = a.Nm
		}
	}
}

func (r *replayer) replayDirect(h *sysHist) {
	r.m.reset()
	r.noteNames(h)
	mimetype.VerifHook = notePublished
	defer func() { mimetype.VerifHook = nil }()
	r.owners = r.owners[:0]
	r.earlier = r.earlier[:0]
	hadExt := false
	var pending *callResult
	for i := range h.H {
		a := h.H[i]
		switch a.A {
		case "DLoad", "SStore", "EBuild", "LRLock":
			cr := r.call(a)
			pending = &cr
			if a.A == "EBuild" {
				if !r.bindExt(a) {
					r.fail([]string{"C14"}, "extension-not-found-after-extend", h, nil, fmt.Sprintf("Extend(%s) returned but Lookup does not find it", a.E))
					return
				}
				hadExt = true
			}
			if a.A == "SStore" || a.A == "EBuild" {
				r.afterOp(h)
			}
		case "DWalk":
			r.checkResult(h, *pending, a.Path, "", "", hadExt, false)
			r.afterOp(h)
		case "LSearch":
			r.checkResult(h, *pending, nil, a.Found, a.FP, hadExt, false)
			r.afterOp(h)
		}
	}
	r.checkFinal(h, false)
}

// ---------------------------------------------------------------- gated (several goroutines)
type proc struct {
	name    string
	release chan struct{}
	ops     []sysAct
}

func (r *replayer) replayGated(h *sysHist, timeout time.Duration) (ok bool) {
	r.m.reset()
	r.noteNames(h)
	r.owners = r.owners[:0]
	r.earlier = r.earlier[:0]
	procs := map[string]*proc{}
	order := []string{}
	for _, a := range h.H {
		p, okp := procs[a.G]
		if !okp {
			p = &proc{name: a.G, release: make(chan struct{})}
			procs[a.G] = p
			order = append(order, a.G)
		}
		switch a.A {
		case "DLoad", "SStore", "EBuild", "LRLock":
			p.ops = append(p.ops, a)
		}
	}
	parked := make(chan parkMsg, 16)
	var gidMu sync.Mutex
	gidProc := map[int64]*proc{}
	results := map[string][]callResult{}
	var resMu sync.Mutex

	mimetype.VerifHook = func(ev mimetype.VerifEvent) {
		notePublished(ev)
		if !gatePoints[ev.Point] {
			return
		}
		gidMu.Lock()
		p := gidProc[goid()]
		gidMu.Unlock()
		if p == nil {
			return
		}
		parked <- parkMsg{proc: p.name, point: ev.Point, ev: ev}
		<-p.release
	}
	defer func() { mimetype.VerifHook = nil }()

	var wg sync.WaitGroup
	for _, name := range order {
		p := procs[name]
		wg.Add(1)
		go func(p *proc) {
			defer wg.Done()
			gidMu.Lock()
			gidProc[goid()] = p
			gidMu.Unlock()
			for _, op := range p.ops {
				parked <- parkMsg{proc: p.name, point: "start"}
				<-p.release
				cr := r.call(op)
				resMu.Lock()
				results[p.name] = append(results[p.name], cr)
				resMu.Unlock()
			}
			parked <- parkMsg{proc: p.name, point: "finished"}
		}(p)
	}
	// every goroutine first parks at "start" (or "finished")
	where := map[string]string{}
	waitPark := func(name string) (parkMsg, bool) {
		deadline := time.After(timeout)
		for {
			select {
			case m := <-parked:
				where[m.proc] = m.point
				if m.proc == name {
					return m, true
				}
			case <-deadline:
				return parkMsg{}, false
			}
		}
	}
	for len(where) < len(order) {
		select {
		case m := <-parked:
			where[m.proc] = m.point
		case <-time.After(timeout):
			fmt.Fprintln(os.Stderr, "goroutines did not start")
			os.Exit(2)
		}
	}
	hadExt := false
	opIdx := map[string]int{}
	abort := func() {
		// release everything so that the goroutines can finish
		mimetype.VerifHook = nil
		go func() {
			for range parked {
			}
		}()
		for _, p := range procs {
			go func(p *proc) {
				for {
					select {
					case p.release <- struct{}{}:
					case <-time.After(2 * time.Second):
						return
					}
				}
			}(p)
		}
		wg.Wait()
	}
	for i := range h.H {
		a := h.H[i]
		p := procs[a.G]
		want := parkAfter[a.A]
		p.release <- struct{}{}
		m, okp := waitPark(a.G)
		if !okp {
			r.rep.drift(fmt.Sprintf("schedule infeasible on the real code at step %d (%s:%s did not reach %q): %s", i, a.G, a.A, want, histText(h)))
			abort()
			return false
		}
		got := m.point
		if want == "" {
			if got != "start" && got != "finished" {
				r.rep.drift(fmt.Sprintf("step %d %s:%s expected return, parked at %s: %s", i, a.G, a.A, got, histText(h)))
				abort()
				return false
			}
		} else if got != want {
			r.rep.drift(fmt.Sprintf("step %d %s:%s expected gate %s, got %s: %s", i, a.G, a.A, want, got, histText(h)))
			abort()
			return false
		}
		switch a.A {
		case "DLoad":
			if int64(m.ev.Limit) != a.L {
				r.fail([]string{"C06"}, "loaded-limit", h, nil, fmt.Sprintf("Detect loaded limit %d, model %d", m.ev.Limit, a.L))
			}
		case "DRUnlock", "LRUnlock", "SStore", "EUnlock":
			resMu.Lock()
			cr := results[a.G][opIdx[a.G]]
			resMu.Unlock()
			opIdx[a.G]++
			if a.A == "EUnlock" {
				// the lock is free again: bind the published node (Lookup takes the read lock)
				lost := false
				for j := i - 1; j >= 0; j-- {
					if h.H[j].G == a.G && h.H[j].A == "EBuild" {
						if !r.bindExt(h.H[j]) {
							lost = true
							r.fail([]string{"C06", "C14"}, "extension-lost", h, nil, fmt.Sprintf("Extend(%s) returned but Lookup does not find it: a concurrent Extend overwrote it", h.H[j].E))
						}
						break
					}
				}
				if lost {
					abort()
					return false
				}
				hadExt = true
			}
			if a.A == "DRUnlock" {
				r.checkResult(h, cr, a.Path, "", "", hadExt, true)
			}
			if a.A == "LRUnlock" {
				// the model's LSearch record of this goroutine
				for j := i - 1; j >= 0; j-- {
					if h.H[j].G == a.G && h.H[j].A == "LSearch" {
						r.checkResult(h, cr, nil, h.H[j].Found, h.H[j].FP, hadExt, true)
						break
					}
				}
			}
			r.afterOp(h)
		}
	}
	wg.Wait()
	r.checkFinal(h, true)
	return true
}

func init() { cmds["sysreplay"] = sysreplayMain }

func sysreplayMain(args []string) int {
	fs := flag.NewFlagSet("sysreplay", flag.ExitOnError)
	in := fs.String("in", "", "TLC log with behaviour lines")
	out := fs.String("out", "", "report path")
	seed := fs.Int64("seed", 1, "seed (alias capacities, package-level vs method Extend)")
	max := fs.Int("max", 0, "replay at most this many behaviours (0 = all)")
	fs.Parse(args)

	m := newSysMap()
	if err := m.sanity(); err != nil {
		fmt.Fprintln(os.Stderr, "oracle sanity:", err)
		return 2
	}
	rep := newReport("sysreplay")
	r := &replayer{m: m, rep: rep, rng: rand.New(rand.NewSource(*seed))}
	var n, gated, multiExt, withDetectAfterExt int64
	err := tlcVectorLines(*in, func(b []byte) {
		if *max > 0 && n >= int64(*max) {
			return
		}
		var h sysHist
		if err := stdjson.Unmarshal(b, &h); err != nil {
			fmt.Fprintln(os.Stderr, "bad behaviour:", err)
			os.Exit(2)
		}
		n++
		procs := map[string]bool{}
		exts := 0
		sawExt := false
		for _, a := range h.H {
			procs[a.G] = true
			if a.A == "EBuild" {
				exts++
				sawExt = true
			}
			if a.A == "DLoad" && sawExt {
				withDetectAfterExt++
				sawExt = false
			}
		}
		if exts > 1 {
			multiExt++
		}
		if len(procs) > 1 {
			gated++
			r.replayGated(&h, 5*time.Second)
		} else {
			r.replayDirect(&h)
		}
		if n%5000 == 1 && len(rep.Samples) < 8 {
			rep.sample(histText(&h))
		}
	})
	if err != nil {
		fmt.Fprintln(os.Stderr, err)
		return 2
	}
	m.reset()
	if n == 0 {
		fmt.Fprintln(os.Stderr, "no behaviours in", *in)
		return 2
	}
	rep.Evaluations = n
	rep.Nontrivial = withDetectAfterExt
	rep.Extra["behaviours"] = n
	rep.Extra["gated_concurrent"] = gated
	rep.Extra["with_two_or_more_extensions"] = multiExt
	rep.Extra["detections_after_an_extension"] = withDetectAfterExt
	rep.write(*out)
	return 0
}
