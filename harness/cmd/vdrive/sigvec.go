package main

import (
	stdjson "encoding/json"
	"flag"
	"fmt"
	"os"

	"github.com/gabriel-vasile/mimetype"
)

// sigvec replays the strings of MC_TextSig.tla on the real text/html detector (verdict
// compared with the model: drift) and through Detect (must return: C01).

func init() { cmds["sigvec"] = sigvecMain }

func sigvecMain(args []string) int {
	fs := flag.NewFlagSet("sigvec", flag.ExitOnError)
	in := fs.String("in", "", "TLC log")
	out := fs.String("out", "", "report")
	fs.Parse(args)
	rep := newReport("sigvec")
	html := mimetype.VerifDetector(findNode("text/html", ".html"))
	mimetype.SetLimit(3072)
	var n, accepted int64
	err := tlcVectorLines(*in, func(b []byte) {
		var v struct {
			I    []int `json:"i"`
			HTML bool  `json:"html"`
		}
		if err := stdjson.Unmarshal(b, &v); err != nil {
			fmt.Fprintln(os.Stderr, "bad vector", err)
			os.Exit(2)
		}
		raw := ints2bytes(v.I)
		n++
		ret, got, msg := safeCall(func() bool { return html(raw, 3072) })
		if !ret {
			rep.violate(mkViolation("C01", "panic-in-html-detector", raw, 3072, msg))
			return
		}
		if got {
			accepted++
		}
		if got != v.HTML {
			rep.drift(fmt.Sprintf("text/html detector on %q: real %v, model %v", raw, got, v.HTML))
		}
		ret, _, msg = safeCall(func() bool { return mimetype.Detect(raw) != nil })
		if !ret {
			rep.violate(mkViolation("C01", "panic-in-detect", raw, 3072, msg))
		}
	})
	if err != nil || n == 0 {
		fmt.Fprintln(os.Stderr, "no vectors", err)
		return 2
	}
	rep.Evaluations = 2 * n
	rep.Nontrivial = accepted
	rep.Extra["vectors"] = n
	rep.Extra["accepted_as_html"] = accepted
	rep.write(*out)
	return 0
}
