package main

import (
	"archive/zip"
	"bytes"
	"fmt"
	"os"
	"strings"

	"github.com/gabriel-vasile/mimetype"
)

// Mapping between the abstract skeleton of spec/Sys.tla and the real package.

type sysMap struct {
	node    map[string]*mimetype.MIME // abstract id -> real tree node (built-ins and registered extensions)
	id      map[*mimetype.MIME]string
	inputs  map[string][]byte
	builtin map[string]*mimetype.MIME
	alias   map[string]string // extension id -> id whose type string it is registered under (duplicates)
}

func jarBytes() []byte {
	var buf bytes.Buffer
	w := zip.NewWriter(&buf)
	f, _ := w.CreateHeader(&zip.FileHeader{Name: "META-INF/MANIFEST.MF", Method: zip.Store})
	f.Write([]byte("Manifest-Version: 1.0\r\nCreated-By: verif\r\n\r\n"))
	g, _ := w.CreateHeader(&zip.FileHeader{Name: "a/B.class", Method: zip.Store})
	g.Write([]byte{0xCA, 0xFE, 0xBA, 0xBE, 0, 0, 0, 52})
	w.Close()
	return buf.Bytes()
}

func newSysMap() *sysMap {
	m := &sysMap{node: map[string]*mimetype.MIME{}, id: map[*mimetype.MIME]string{}, inputs: map[string][]byte{}}
	m.inputs["x1"] = jarBytes()
	m.inputs["x2"] = []byte("[1,2]")
	m.inputs["x3"] = []byte("\x00\x01\x02\x03binary\x00")
	m.reset()
	return m
}

// reset restores the real tree and re-binds the built-in nodes.
func (m *sysMap) reset() {
	mimetype.VerifResetTree()
	if m.builtin == nil {
		m.builtin = map[string]*mimetype.MIME{"root": mimetype.VerifRoot()}
		bind := func(id, mime, ext string) {
			n := findNode(mime, ext)
			if n == nil {
				fmt.Fprintln(os.Stderr, "skeleton node not found:", mime)
				os.Exit(2)
			}
			m.builtin[id] = n
		}
		bind("bin", "application/zip", ".zip")
		bind("binc", "application/jar", ".jar")
		bind("txt", "text/plain", ".txt")
		bind("tj", "application/json", ".json")
	}
	m.node = map[string]*mimetype.MIME{}
	m.id = map[*mimetype.MIME]string{}
	m.alias = map[string]string{}
	for id, n := range m.builtin {
		m.node[id] = n
		m.id[n] = id
	}
}

// extPrefix: upper-case letters are legal in a registered type string (Lookup is an exact match)
const extPrefix = "ext/Vnd.Acme-"

func (m *sysMap) realName(id string) string {
	if a, ok := m.alias[id]; ok {
		id = a
	}
	switch id {
	case "root":
		return "application/octet-stream"
	case "bin":
		return "application/zip"
	case "binc":
		return "application/jar"
	case "txt":
		return "text/plain"
	case "tj":
		return "application/json"
	case "missing":
		return "no/such-type"
	}
	if strings.HasPrefix(id, "al") {
		return "alias/" + id
	}
	return extPrefix + id
}

// inputID recognises the abstract input from any non-empty prefix of its bytes.
func inputID(raw []byte) string {
	if len(raw) == 0 {
		return ""
	}
	switch raw[0] {
	case 'P':
		return "x1"
	case '[':
		return "x2"
	case 0:
		return "x3"
	}
	return ""
}

// extDetector is the table-driven detector of an abstract extension.
func extDetector(acc []string) func([]byte, uint32) bool {
	set := map[string]bool{}
	for _, a := range acc {
		set[a] = true
	}
	return func(raw []byte, limit uint32) bool { return set[inputID(raw)] }
}

// modelChain converts a model path <<root, .., leaf>> to the expected real chain
// (leaf first) of bare type strings.
func (m *sysMap) modelChain(path []string) []string {
	out := make([]string, 0, len(path))
	for i := len(path) - 1; i >= 0; i-- {
		out = append(out, m.realName(path[i]))
	}
	return out
}

func bareChain(mm *mimetype.MIME) []string {
	c := chain(mm)
	for i := range c {
		c[i] = baseType(c[i])
	}
	return c
}

func eqStrings(a, b []string) bool {
	if len(a) != len(b) {
		return false
	}
	for i := range a {
		if a[i] != b[i] {
			return false
		}
	}
	return true
}

// projectedChildren returns, for every mapped node, its real children restricted to
// mapped nodes, as abstract ids.
func (m *sysMap) projectedChildren() map[string][]string {
	out := map[string][]string{}
	for _, n := range mimetype.VerifTree() {
		id, ok := m.id[n.M]
		if !ok {
			continue
		}
		lst := []string{}
		for _, c := range n.Children {
			if cid, ok := m.id[c]; ok {
				lst = append(lst, cid)
			}
		}
		out[id] = lst
	}
	return out
}

// sanity checks the built-in verdict table BAcc of Sys.tla against the real package.
func (m *sysMap) sanity() error {
	exp := map[string]map[uint32][]string{
		"x1": {0: {"root", "bin", "binc"}, 3072: {"root", "bin", "binc"}, 1: {"root", "txt"}},
		"x2": {0: {"root", "txt", "tj"}, 3072: {"root", "txt", "tj"}, 1: {"root", "txt", "tj"}},
		"x3": {0: {"root"}, 3072: {"root"}, 1: {"root"}},
	}
	for x, byLim := range exp {
		for lim, path := range byLim {
			mimetype.SetLimit(lim)
			got := bareChain(mimetype.Detect(m.inputs[x]))
			if !eqStrings(got, m.modelChain(path)) {
				return fmt.Errorf("skeleton table: input %s limit %d: real %v, model %v", x, lim, got, m.modelChain(path))
			}
		}
	}
	mimetype.SetLimit(3072)
	return nil
}
