package main

import (
	stdjson "encoding/json"
	"flag"
	"fmt"
	"mime"
	"os"
	"strings"
	"sync"
	"time"

	"github.com/gabriel-vasile/mimetype"
)

// metadocs renders the abstract documents of MC_Meta.tla (declared charsets, hostile
// labels), runs them through the real Detect and checks C12 (reported charset = the
// specification's Expected), C02 (shape of every result) and C15 (self-equality).

type metaLabel struct {
	Raw string `json:"raw"`
	Low string `json:"low"`
}

type metaDoc struct {
	Kind      string             `json:"kind"`
	Label     stdjson.RawMessage `json:"label"`
	Quote     string             `json:"quote"`
	Order     string             `json:"order"`
	Extra     string             `json:"extra"`
	TCase     string             `json:"tcase"`
	Spacing   string             `json:"spacing"`
	SelfClose bool               `json:"selfclose"`
	Prologue  string             `json:"prologue"`
	Bom       string             `json:"bom"`
	Lim       string             `json:"lim"`
	Form      string             `json:"form"`
	Lead      string             `json:"lead"`
	Syn       string             `json:"syn"`
	Lbl       []string           `json:"lbl"`
	Toks      []string           `json:"toks"`
	Attrs     []struct {
		K string `json:"k"`
		V string `json:"v"`
	} `json:"attrs"`
	Single bool `json:"single"`
}

type metaVec struct {
	D   metaDoc `json:"d"`
	Exp string  `json:"exp"`
}

func recase(s, mode string) string {
	switch mode {
	case "UPPER":
		return strings.ToUpper(s)
	case "MiXed":
		b := []byte(s)
		for i := range b {
			if i%2 == 0 {
				b[i] = strings.ToUpper(string(b[i]))[0]
			}
		}
		return string(b)
	}
	return s
}

func quoteWith(q, v string) string {
	switch q {
	case "dq":
		return `"` + v + `"`
	case "sq":
		return `'` + v + `'`
	}
	return v
}

var prologues = map[string]string{
	"doctype":                       "<!DOCTYPE html><html><head>",
	"html-head":                     "<html><head>",
	"doctype-comment-fake":          `<!DOCTYPE html><!-- <meta charset="koi8-u"> --><html><head>`,
	"doctype-script-fake":           `<!DOCTYPE html><html><head><script>var m='<meta charset="koi8-u">';</script>`,
	"doctype-title-fake":            `<!DOCTYPE html><html><head><title><meta charset="koi8-u"></title>`,
	"doctype-other-meta":            `<!DOCTYPE html><html><head><meta name="viewport" content="width=device-width">`,
	"doctype-content-without-equiv": `<!DOCTYPE html><html><head><meta name="description" content="text/html; charset=koi8-u">`,
	"ws-doctype":                    " \n\t<!DOCTYPE html><html><head>",
	"doctype-latin-comment":         "<!DOCTYPE html><!-- caf\xe9 cr\xe8me --><html><head>", // a stray Latin-1 byte before the declaration
	"head-closed":                   "<!DOCTYPE html><html><head><title>t</title></head>",   // the prescan is positional: after </head>
	"body-first":                    "<html><body><p>text</p>",
	"body-fragment":                 `<body class="x">`,
	// single tokens longer than any plausible tokenizer buffer: a licence comment, an inline script, a style sheet
	"doctype-long-comment": "<!DOCTYPE html><!--" + strings.Repeat(" licence text, line after line.\n", 160) + "--><html><head>",
	"doctype-long-script":  "<!DOCTYPE html><html><head><script>" + strings.Repeat("var a = '<meta charset=koi8-u>'; /* filler */\n", 140) + "</script>",
	"doctype-long-style":   "<!DOCTYPE html><html><head><style>" + strings.Repeat("p.c { margin: 0; padding: 0 }\n", 300) + "</style>",
}

func sep(spacing string) (between, aroundEq string) {
	switch spacing {
	case "spaces":
		return "  ", " "
	case "newlines":
		return "\n", "\n"
	}
	return " ", ""
}

// renderHTML returns the document and the offset just past the declaring tag.
func renderHTML(d *metaDoc, label string) (string, int) {
	var b strings.Builder
	if d.Bom == "utf-8" {
		b.WriteString("\xEF\xBB\xBF")
	}
	b.WriteString(prologues[d.Prologue])
	between, eq := sep(d.Spacing)
	attr := func(k, v, q string) string { return recase(k, d.TCase) + eq + "=" + eq + quoteWith(q, v) }
	var attrs []string
	if d.Kind == "meta-charset" {
		attrs = append(attrs, attr("charset", label, d.Quote))
		if d.Extra == "dup-charset-after" {
			attrs = append(attrs, attr("charset", "koi8-u", "dq"))
		}
	} else {
		inner := label
		if d.Extra == "after" { // inner label quoted with the other kind of quote
			if d.Quote == "dq" {
				inner = "'" + label + "'"
			} else {
				inner = `"` + label + `"`
			}
		}
		cs := recase("charset", d.TCase) // the parameter name inside the content value is matched without regard to case too
		content := "text/html; " + cs + "=" + inner
		switch d.Spacing {
		case "spaces":
			content = "text/html;  " + cs + " = " + inner + " "
		case "newlines":
			content = "text/html;" + cs + "=" + inner + ";x=y"
		}
		e := attr("http-equiv", recase("Content-Type", d.TCase), d.Quote)
		c := attr("content", content, d.Quote)
		if d.Order == "equiv-first" {
			attrs = append(attrs, e, c)
		} else {
			attrs = append(attrs, c, e)
		}
	}
	switch d.Extra {
	case "before":
		attrs = append([]string{`id="m"`}, attrs...)
	case "after":
		attrs = append(attrs, `data-x="1"`)
	}
	b.WriteString("<" + recase("meta", d.TCase) + between + strings.Join(attrs, between))
	if d.SelfClose {
		b.WriteString(" />")
	} else {
		if d.Spacing != "tight" {
			b.WriteString(between)
		}
		b.WriteString(">")
	}
	past := b.Len()
	b.WriteString("<title>T</title></head><body><p>hello world</p></body></html>\n")
	return b.String(), past
}

func renderXML(d *metaDoc, label string) (string, int) {
	var b strings.Builder
	switch d.Lead {
	case "ws":
		b.WriteString(" \n")
	case "bom":
		b.WriteString("\xEF\xBB\xBF")
	}
	q := d.Quote
	switch d.Form {
	case "version-encoding":
		b.WriteString("<?xml version=" + quoteWith(q, "1.0") + " encoding=" + quoteWith(q, label) + "?>")
	case "version-encoding-standalone":
		b.WriteString("<?xml version=" + quoteWith(q, "1.0") + " encoding=" + quoteWith(q, label) + " standalone=" + quoteWith(q, "yes") + "?>")
	case "newline":
		b.WriteString("<?xml version=" + quoteWith(q, "1.0") + "\nencoding=" + quoteWith(q, label) + "\n?>")
	case "tab":
		b.WriteString("<?xml\tversion=" + quoteWith(q, "1.0") + "\tencoding=" + quoteWith(q, label) + "?>")
	default:
		b.WriteString("<?xml  version=" + quoteWith(q, "1.0") + "   encoding=" + quoteWith(q, label) + "  ?>")
	}
	past := b.Len()
	if q == "sq" {
		// bytes that do not sniff as the declared charset: the declaration decides, not the body
		b.WriteString("\n<!-- caf\xe9 \x93quoted\x94 -->")
		past = b.Len()
	}
	b.WriteString("\n<root><a>text</a></root>\n")
	return b.String(), past
}

var hostileBytes = map[string]string{
	"tok": "a", "UP": "Q", "dq": `"`, "sq": "'", "bs": `\`, "semi": ";", "eq": "=", "comma": ",", "sp": " ", "tab": "\t",
	"cr": "\r", "lf": "\n", "esc": "\x1b", "ff": "\x0c", "del": "\x7f", "pct": "%", "star": "*", "u8": "\xc3\xa9",
	"cont": "\xa9", "xff": "\xff", "paren": "(", "gt": ">", "slash": "/", "colon": ":", "lt": "<", "at": "@", "qm": "?", "lbr": "[", "rbr": "]",
	"inj":     ";charset=latin1",              // a second parameter smuggled in through the label
	"longu8":  strings.Repeat("\xc3\xa9", 90), // 180 bytes, three times as long once RFC 2231-encoded
	"longtok": strings.Repeat("a", 260),
}

func renderHostile(d *metaDoc) (string, int) {
	var lb strings.Builder
	for _, c := range d.Lbl {
		lb.WriteString(hostileBytes[c])
	}
	label := lb.String()
	var b strings.Builder
	if d.Bom == "utf-8" {
		b.WriteString("\xEF\xBB\xBF")
	}
	cut := 0
	switch d.Syn {
	case "meta-dq", "meta-sq", "meta-none":
		b.WriteString("<!DOCTYPE html><html><head><meta charset=")
		q := map[string]string{"meta-dq": "dq", "meta-sq": "sq", "meta-none": "none"}[d.Syn]
		start := b.Len()
		b.WriteString(quoteWith(q, label))
		cut = start + 1 + len(label)/2
		b.WriteString("><title>t</title></head><body>x</body></html>")
	case "pragma-dq":
		b.WriteString(`<!DOCTYPE html><html><head><meta http-equiv="Content-Type" content="text/html; charset=`)
		start := b.Len()
		b.WriteString(label)
		cut = start + len(label)/2 + 1
		b.WriteString(`"><title>t</title></head><body>x</body></html>`)
	case "pragma-inner-sq":
		b.WriteString(`<!DOCTYPE html><html><head><meta http-equiv="Content-Type" content="text/html; charset='`)
		start := b.Len()
		b.WriteString(label)
		cut = start + len(label)/2 + 1
		b.WriteString(`'"><title>t</title></head><body>x</body></html>`)
	case "xml-none": // unquoted (not well-formed XML, but the declaration parser sees it)
		b.WriteString(`<?xml version="1.0" encoding=`)
		start := b.Len()
		b.WriteString(label)
		cut = start + len(label)/2 + 1
		b.WriteString(`?><root/>`)
	case "xml-dq", "xml-sq":
		q := map[string]string{"xml-dq": "dq", "xml-sq": "sq"}[d.Syn]
		b.WriteString(`<?xml version="1.0" encoding=`)
		start := b.Len()
		b.WriteString(quoteWith(q, label))
		cut = start + 1 + len(label)/2
		b.WriteString(`?><root/>`)
	}
	return b.String(), cut
}

// renderContent writes the token string of MC_Meta's content mode (fromMetaElement) into the content
// attribute of an http-equiv pragma; the attribute is quoted with the quote kind the tokens do not use.
func renderContent(d *metaDoc) (doc string, past int, label string, ok bool) {
	tok := map[string]string{"CS": "charset", "=": "=", "sp": " ", "dq": `"`, "sq": "'", ";": ";", "x": "x", "L": "k"}
	var v strings.Builder
	hasDq, hasSq := false, false
	for _, t := range d.Toks {
		v.WriteString(tok[t])
		hasDq = hasDq || t == "dq"
		hasSq = hasSq || t == "sq"
	}
	if hasDq && hasSq {
		return "", 0, "", false
	}
	q := `"`
	if hasDq {
		q = "'"
	}
	var b strings.Builder
	b.WriteString(`<!DOCTYPE html><html><head><meta http-equiv="Content-Type" content=` + q + v.String() + q + `>`)
	past = b.Len()
	b.WriteString("<title>t</title></head><body>x</body></html>")
	return b.String(), past, strings.Repeat("k", len(d.Lbl)), true
}

// c02Check verifies the shape of a result; registered is the set of type strings in the tree.
func c02Check(rep *Report, m *mimetype.MIME, err error, raw []byte, limit int64, registered map[string]bool) {
	if m == nil {
		rep.violate(mkViolation("C01", "nil-result", raw, limit, "nil MIME"))
		return
	}
	base, params, perr := mime.ParseMediaType(m.String())
	if perr != nil {
		rep.violate(mkViolation("C02", "unparsable", raw, limit, fmt.Sprintf("String()=%q: %v", m.String(), perr)))
		// C15 speaks about every result string the detector synthesises: the bare type is what stands before the first ';'
		bt := baseType(m.String())
		if l := mimetype.Lookup(bt); l == nil || !l.Is(m.String()) || !m.Is(bt) || !mimetype.EqualsAny(m.String(), bt) {
			rep.violate(mkViolation("C15", "result-does-not-equal-its-bare-type", raw, limit, fmt.Sprintf("String()=%q bare type %q", m.String(), bt)))
		}
		return
	}
	if !registered[base] {
		rep.violate(mkViolation("C02", "unregistered", raw, limit, fmt.Sprintf("String()=%q base %q is not a registered format", m.String(), base)))
	}
	for k := range params {
		if k != "charset" {
			rep.violate(mkViolation("C02", "foreign-parameter", raw, limit, fmt.Sprintf("String()=%q carries parameter %q", m.String(), k)))
		}
	}
	if len(params) > 0 && base != "text/plain" && base != "text/html" && base != "text/xml" {
		rep.violate(mkViolation("C02", "parameter-on-other-type", raw, limit, m.String()))
	}
	n := 0
	last := m
	for p := m.Parent(); p != nil; p = p.Parent() {
		n++
		if n > 32 {
			rep.violate(mkViolation("C02", "chain-too-long", raw, limit, m.String()))
			return
		}
		if strings.ContainsAny(p.String(), ";") {
			rep.violate(mkViolation("C02", "ancestor-has-parameters", raw, limit, p.String()))
		}
		last = p
	}
	if last.String() != "application/octet-stream" {
		rep.violate(mkViolation("C02", "not-rooted", raw, limit, "chain ends at "+last.String()))
	}
	if err != nil && (m.String() != "application/octet-stream" || m.Parent() != nil) {
		rep.violate(mkViolation("C02", "error-with-other-type", raw, limit, m.String()))
	}
	// C15 on the ancestors of a result: each is a copy of a registered format and Is that format's names
	for p, i := m.Parent(), 0; p != nil && i < 32; p, i = p.Parent(), i+1 {
		if node := findNode(baseType(p.String()), p.Extension()); node != nil {
			for _, a := range mimetype.VerifAliases(node) {
				if !p.Is(a) {
					rep.violate(mkViolation("C15", "ancestor-not-is-alias", raw, limit, fmt.Sprintf("result %s: ancestor %s .Is(%q) is false although %q is a registered alias of that format", m, p, a, a)))
				}
			}
			if !p.Is(node.String()) {
				rep.violate(mkViolation("C15", "ancestor-not-is-own-type", raw, limit, fmt.Sprintf("result %s: ancestor %s", m, p)))
			}
		}
	}
	// C15 on detection results
	if !m.Is(m.String()) {
		rep.violate(mkViolation("C15", "result-not-is-itself", raw, limit, m.String()))
	}
	if !mimetype.EqualsAny(m.String(), m.String()) {
		rep.violate(mkViolation("C15", "equalsany-self", raw, limit, m.String()))
	}
	if l := mimetype.Lookup(base); l == nil || !l.Is(m.String()) {
		rep.violate(mkViolation("C15", "lookup-of-base", raw, limit, m.String()))
	}
}

func registeredSet() map[string]bool {
	r := map[string]bool{}
	for _, n := range mimetype.VerifTree() {
		r[n.Mime] = true
	}
	return r
}

func init() { cmds["metadocs"] = metadocsMain }

func metadocsMain(args []string) int {
	fs := flag.NewFlagSet("metadocs", flag.ExitOnError)
	in := fs.String("in", "", "TLC log with document lines")
	out := fs.String("out", "", "report path")
	fs.Parse(args)
	rep := newReport("metadocs")
	reg := registeredSet()
	var n, applicable, skipped, hostile, labelled, outside int64
	// watchdog: a detection of a few hundred bytes that has not returned after 40 s never will (C01)
	var wdMu sync.Mutex
	var wdDoc []byte
	var wdSince time.Time
	go func() {
		for {
			time.Sleep(time.Second)
			wdMu.Lock()
			stuck := wdDoc != nil && time.Since(wdSince) > 40*time.Second
			doc := wdDoc
			wdMu.Unlock()
			if stuck {
				rep.violate(mkViolation("C01", "detection-does-not-return", doc, 3072, "Detect has not returned after 40 s on this document"))
				rep.Evaluations = 1
				rep.Extra["documents"] = 0
				rep.Extra["declaration_applicable"] = 0
				rep.Extra["result_type_other_than_html_xml"] = 0
				rep.Extra["hostile_documents"] = 0
				rep.Extra["hostile_with_charset_parameter"] = 0
				rep.Extra["result_types"] = map[string]int{}
				rep.Extra["declaration_outside_the_header"] = 0
				rep.write(*out)
				os.Exit(0)
			}
		}
	}()
	kinds := map[string]int{}
	err := tlcVectorLines(*in, func(b []byte) {
		var v metaVec
		if err := stdjson.Unmarshal(b, &v); err != nil {
			fmt.Fprintln(os.Stderr, "bad doc", err, string(b[:80]))
			os.Exit(2)
		}
		d := &v.D
		var doc string
		var past int
		var lbl metaLabel
		switch d.Kind {
		case "tags":
			// one <meta> with the abstract attribute list of MC_Meta's tags mode
			var b strings.Builder
			b.WriteString("<!DOCTYPE html><html><head><meta")
			for _, a := range d.Attrs {
				switch a.K {
				case "charset":
					b.WriteString(` charset="` + a.V + `"`)
				case "http-equiv":
					b.WriteString(` http-equiv="` + map[string]string{"content-type": "Content-Type", "other": "refresh"}[a.V] + `"`)
				case "content":
					if a.V == "" {
						b.WriteString(` content="text/html"`)
					} else {
						b.WriteString(` content="text/html; charset=` + a.V + `"`)
					}
				default:
					b.WriteString(` name="x"`)
				}
			}
			b.WriteString(">")
			past = b.Len()
			b.WriteString("<title>t</title></head><body>x</body></html>")
			doc = b.String()
			lbl.Raw = v.Exp
			if v.Exp == "" {
				v.Exp = "utf-8" // no declaration: sniffed (the document is ASCII)
			}
			d.Lim = "default"
			// the same bytes detected again and again must give the same answer (C04)
			mimetype.SetLimit(3072)
			first := mimetype.Detect(exact([]byte(doc))).String()
			for r := 0; r < 5; r++ {
				if again := mimetype.Detect(exact([]byte(doc))).String(); again != first {
					rep.violate(mkViolation("C04", "repeated-detection-differs", []byte(doc), 3072, fmt.Sprintf("first %s, repetition %d %s", first, r+2, again)))
					break
				}
			}
		case "content":
			var ok bool
			doc, past, lbl.Raw, ok = renderContent(d)
			if !ok {
				return
			}
			v.Exp = lbl.Raw
			d.Lim = []string{"default", "just-past", "zero"}[int(n)%3]
		case "hostile":
			doc, past = renderHostile(d)
			hostile++
		case "xml":
			stdjson.Unmarshal(d.Label, &lbl)
			doc, past = renderXML(d, lbl.Raw)
		default:
			stdjson.Unmarshal(d.Label, &lbl)
			doc, past = renderHTML(d, lbl.Raw)
		}
		var lim int64
		switch d.Lim {
		case "zero":
			lim = 0
		case "default":
			lim = 3072
		case "just-past", "cut-inside":
			lim = int64(past)
		}
		if lim != 0 && int64(past) > lim {
			outside++ // the declaration lies beyond the examined header: the statement does not apply
			return
		}
		mimetype.SetLimit(uint32(lim))
		raw := exact([]byte(doc))
		wdMu.Lock()
		wdDoc, wdSince = raw, time.Now()
		wdMu.Unlock()
		m := mimetype.Detect(raw)
		wdMu.Lock()
		wdDoc = nil
		wdMu.Unlock()
		n++
		c02Check(rep, m, nil, raw, lim, reg)
		if d.Kind == "hostile" {
			if charsetOf(m) != "" {
				labelled++
			}
			return
		}
		base := baseType(m.String())
		want := "text/html"
		if d.Kind == "xml" {
			want = "text/xml"
		}
		kinds[base]++
		if base != want {
			skipped++
			return
		}
		applicable++
		if got := charsetOf(m); got != v.Exp {
			if d.Kind == "tags" && !d.Single {
				// a tag that uses both mechanisms, or none: C12 does not speak about it; the model does
				rep.drift(fmt.Sprintf("meta %v: model %q, reported %q", d.Attrs, v.Exp, got))
			} else {
				rep.violate(mkViolation("C12", "declared-charset-"+d.Kind, raw, lim, fmt.Sprintf("declared %q, expected %q, reported %q", lbl.Raw, v.Exp, got)))
			}
		}
		if n%20011 == 1 {
			rep.sample(map[string]any{"doc": doc, "limit": lim, "expected": v.Exp, "result": m.String()})
		}
	})
	if err != nil || n == 0 {
		fmt.Fprintln(os.Stderr, "no documents", err)
		return 2
	}
	if hostile > 0 {
		// long labels: every length 100..140 and 245..265 of one repeated character (escape pairs and the
		// RFC 2231 form make the formatted string two to three times as long), three declaration syntaxes
		mimetype.SetLimit(0)
		for _, c := range []string{`\`, `"`, "a", "\xc3\xa9", ";", " "} {
			for L := 100; L <= 265; L++ {
				if L > 140 && L < 245 {
					continue
				}
				label := strings.Repeat(c, L)
				docs := []string{
					`<!DOCTYPE html><html><head><meta charset='` + label + `'><title>t</title></head></html>`,
					`<!DOCTYPE html><html><head><meta http-equiv="Content-Type" content='text/html; charset=` + label + `'></head></html>`,
					`<?xml version="1.0" encoding='` + label + `'?><a/>`,
				}
				if c == `"` {
					docs = docs[:1]
				}
				for _, doc := range docs {
					raw := exact([]byte(doc))
					m := mimetype.Detect(raw)
					n++
					hostile++
					c02Check(rep, m, nil, raw, 0, reg)
					if charsetOf(m) != "" {
						labelled++
					}
				}
			}
		}
	}
	mimetype.SetLimit(3072)
	rep.Evaluations = n
	rep.Nontrivial = applicable + labelled
	rep.Extra["documents"] = n
	rep.Extra["declaration_applicable"] = applicable
	rep.Extra["result_type_other_than_html_xml"] = skipped
	rep.Extra["hostile_documents"] = hostile
	rep.Extra["declaration_outside_the_header"] = outside
	rep.Extra["hostile_with_charset_parameter"] = labelled
	rep.Extra["result_types"] = kinds
	rep.write(*out)
	return 0
}
