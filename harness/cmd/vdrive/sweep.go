package main

import (
	"archive/tar"
	"bufio"
	"bytes"
	stdjson "encoding/json"
	"flag"
	"fmt"
	"math/rand"
	"os"
	"path/filepath"
	"sync"
	"time"

	"github.com/gabriel-vasile/mimetype"
)

// cutsweep (C01): every sample cut at (almost) every length, through the three entry
// points with several limits and through every registered detector directly.
// monotrace (C17): every sample extended with three kinds of tail, detected at every
// limit 1..700, then geometrically, then unlimited.

type cutRec struct {
	Ev       string `json:"ev"`
	Sample   string `json:"sample"`
	N        int    `json:"n"`
	Calls    int    `json:"calls"`
	Returned int    `json:"returned"`
	NonNil   bool   `json:"nonnil"`
	NonEmpty bool   `json:"nonempty"`
	Panic    string `json:"panic"`
}

func extraSamples(rng *rand.Rand) (names []string, data [][]byte) {
	add := func(n string, b []byte) { names = append(names, "gen:"+n); data = append(data, b) }
	// stdlib-written archives
	var tb bytes.Buffer
	tw := tar.NewWriter(&tb)
	tw.WriteHeader(&tar.Header{Name: "a.txt", Mode: 0o644, Size: 3, ModTime: time.Unix(1700000000, 0)})
	tw.Write([]byte("abc"))
	tw.Close()
	add("tar", tb.Bytes())
	// a longer archive whose LATER members carry names that matter only for the first one (gpkg marker, other magics)
	var tb2 bytes.Buffer
	tw2 := tar.NewWriter(&tb2)
	for i, nm := range []string{"pkg/metadata.txt", "pkg/a.bin", "pkg/b.bin", "pkg/c.bin", "pkg/d.bin", "pkg/e.bin", "pkg/image/gpkg-1", "MZ-tools/readme", "pkg/f.bin"} {
		body := bytes.Repeat([]byte{byte('a' + i)}, 700)
		tw2.WriteHeader(&tar.Header{Name: nm, Mode: 0o644, Size: int64(len(body)), ModTime: time.Unix(1700000000, 0)})
		tw2.Write(body)
	}
	tw2.Close()
	add("tar-9-members", tb2.Bytes())
	z, _ := buildZip([]zipEntry{{"[Content_Types].xml", 40, 0}, {"_rels/.rels", 5, 0}, {"word/document.xml", 300, 0}}, true, false, rng, nil)
	add("docx", z)
	z2, _ := buildZip([]zipEntry{{"META-INF/MANIFEST.MF", 40, 0}, {"classes.dex", 5, 0}}, false, false, rng, nil)
	add("apk", z2)
	add("crx", append([]byte("Cr24\x03\x00\x00\x00\x04\x00\x00\x00\x04\x00\x00\x00AAAABBBB"), z2[:60]...))
	add("mkv", []byte("\x1A\x45\xDF\xA3\x01\x00\x00\x00\x00\x00\x00\x1F\x42\x86\x81\x01\x42\xF7\x81\x01\x42\x82\x88matroska\x42\x87"))
	ole := make([]byte, 1300)
	copy(ole, []byte{0xD0, 0xCF, 0x11, 0xE0, 0xA1, 0xB1, 0x1A, 0xE1})
	ole[26] = 3
	ole[48] = 1
	copy(ole[512*2+80:], []byte{0x84, 0x10, 0x0C, 0x00, 0x00, 0x00, 0x00, 0x00, 0xC0, 0x00, 0x00, 0x00, 0x00, 0x00, 0x00, 0x46})
	add("msi", ole)
	add("json-deep", []byte(`{"type":"Feature","a":[1,2,{"b":[null,true,"xé\n"]}],"log":{"version":1}}`))
	add("utf8-tail", []byte("caf\xc3\xa9 \xe6\x97\xa5\xe6\x9c\xac \xf0\x9f\x98\x80"))
	add("csv", []byte("a,b,c\r\n1,\"x,y\",3\r\n#c\r\n4,5,6\r\n"))
	add("html-meta", []byte(`<!DOCTYPE html><html><head><meta http-equiv="Content-Type" content="text/html; charset=koi8-r"></head>`))
	add("xml-enc", []byte(`<?xml version="1.0" encoding="ISO-8859-1"?><rss version="2.0"></rss>`))
	add("p7s", []byte("-----BEGIN PKCS7-----\nMIIB"))
	add("p7s-bin", []byte("\x30\x82\x01\x02\x06\x09\x2A\x86\x48\x86\xF7\x0D\x01\x07\x02\xA0"))
	add("shebang", []byte("#!  /usr/bin/env python  \nprint(1)\n"))
	add("srt", []byte("1\r\n00:00:01,000 --> 00:00:02,000\r\nhello\r\n"))
	// hand-over between root siblings: a TrueType prefix followed by (almost) an Access signature
	for _, sig := range []string{"Standard ACE DB", "Standard Jet DB"} {
		full := append([]byte{0x00, 0x01, 0x00, 0x00}, sig...)
		add("ttf+"+sig, append(append([]byte{}, full...), make([]byte, 64)...))
		for p := 4; p < len(full); p++ {
			v := append(append([]byte{}, full...), make([]byte, 64)...)
			v[p] ^= 0x20
			add(fmt.Sprintf("ttf+%s~%d", sig, p), v)
		}
	}
	// an ID3v2 tag of a known size followed by something that is not MPEG audio
	for _, sz := range []int{0, 20, 200} {
		for tn, tail := range map[string][]byte{"flac": []byte("fLaC\x00\x00\x00\x22"), "adts": {0xFF, 0xF1, 0x50, 0x80}, "id3": []byte("ID3\x03\x00\x00\x00\x00\x00\x0a"), "garbage": {0x07, 0x07, 0x07, 0x07}, "text": []byte("plain words")} {
			tag := append([]byte("ID3\x03\x00\x00\x00\x00"), byte(sz>>7&0x7f), byte(sz&0x7f))
			tag = append(tag, make([]byte, sz)...)
			add(fmt.Sprintf("id3v2-%d+%s", sz, tn), append(tag, tail...))
		}
	}
	// a Chrome extension header whose declared key / signature lengths point at bytes that are no zip
	crx := append([]byte("Cr24\x03\x00\x00\x00\x64\x00\x00\x00\x64\x00\x00\x00"), bytes.Repeat([]byte("k"), 300)...)
	add("crx-nozip", crx)
	crx2 := append([]byte("Cr24\x03\x00\x00\x00\x00\x02\x00\x00\x00\x01\x00\x00"), bytes.Repeat([]byte{0x07}, 900)...)
	add("crx-nozip-far", crx2)
	return
}

func init() {
	cmds["cutsweep"] = cutsweepMain
	cmds["monotrace"] = monotraceMain
}

func cutsweepMain(args []string) int {
	fs := flag.NewFlagSet("cutsweep", flag.ExitOnError)
	outDir := fs.String("outdir", "", "trace directory")
	shards := fs.Int("shards", 16, "trace files / workers")
	corpus := fs.String("corpus", "", "corpus directory")
	seed := fs.Int64("seed", 1, "seed")
	maxCuts := fs.Int("maxcuts", 160, "cut lengths per sample (all when the sample is shorter)")
	mutations := fs.Int("mutations", 1, "seeded byte-mutated variants per sample")
	report := fs.String("out", "", "report path")
	fs.Parse(args)
	rep := newReport("cutsweep")
	rng0 := rand.New(rand.NewSource(*seed))
	var hostileFields int
	names, data := loadCorpus(*corpus)
	en, ed := extraSamples(rng0)
	names, data = append(names, en...), append(data, ed...)
	base := len(data)
	for i := 0; i < base; i++ {
		for m := 0; m < *mutations; m++ {
			if len(data[i]) == 0 {
				continue
			}
			v := append([]byte{}, data[i]...)
			for k := 0; k < 1+len(v)/64; k++ {
				p := rng0.Intn(len(v))
				switch rng0.Intn(3) {
				case 0:
					v[p] = byte(rng0.Intn(256))
				case 1:
					v[p] = 0xFF
				default:
					v[p] ^= 1 << uint(rng0.Intn(8))
				}
			}
			names = append(names, names[i]+"~mut")
			data = append(data, v)
		}
	}
	// compound files re-labelled as version 4 (4096-byte sectors) and padded beyond 4736 bytes
	for i := 0; i < base; i++ {
		if len(data[i]) > 600 && bytes.HasPrefix(data[i], []byte{0xD0, 0xCF, 0x11, 0xE0, 0xA1, 0xB1, 0x1A, 0xE1}) {
			v := append(append([]byte{}, data[i]...), make([]byte, 6000)...)
			v[26], v[27] = 0x04, 0x00
			names = append(names, names[i]+"~olev4")
			data = append(data, v[:6000])
		}
	}
	// hostile values in every 32-bit field position of the first 48 bytes (chunk / box / offset fields that a
	// walker adds to a cursor): both byte orders, values around 2^32 and 2^31
	for i := 0; i < base; i++ {
		if len(data[i]) < 12 || i%3 != int(*seed)%3 {
			continue
		}
		for off := 4; off+4 <= len(data[i]) && off <= 44; off += 4 {
			for _, val := range [][4]byte{{0xFF, 0xFF, 0xFF, 0xF4}, {0xFF, 0xFF, 0xFF, 0xFF}, {0x80, 0x00, 0x00, 0x00}, {0xFF, 0xFF, 0xFF, 0xF0}} {
				for _, le := range []bool{false, true} {
					v := append([]byte{}, data[i]...)
					for k := 0; k < 4; k++ {
						if le {
							v[off+k] = val[3-k]
						} else {
							v[off+k] = val[k]
						}
					}
					names = append(names, fmt.Sprintf("%s~field@%d", names[i], off))
					data = append(data, v)
					hostileFields++
				}
			}
		}
	}
	tree := mimetype.VerifTree()
	var dets []func([]byte, uint32) bool
	for _, n := range tree {
		if n.Parent != nil {
			dets = append(dets, mimetype.VerifDetector(n.M))
		}
	}
	// watchdog: a call on a header of a few KiB that has not returned after 60 s never will (C01: always terminates)
	var wdMu sync.Mutex
	inflight := map[int][]byte{}
	since := map[int]time.Time{}
	go func() {
		for {
			time.Sleep(time.Second)
			wdMu.Lock()
			for sh, h := range inflight {
				if h != nil && time.Since(since[sh]) > 60*time.Second {
					rep.violate(mkViolation("C01", "call-does-not-return", h, 3072, "a detection on this header has not returned after 60 s"))
					rep.Evaluations = 1
					rep.Extra["samples"] = len(data)
					rep.Extra["headers"] = 0
					rep.Extra["direct_detector_calls"] = 0
					rep.Extra["registered_detectors"] = len(dets)
					rep.write(*report)
					os.Exit(0)
				}
			}
			wdMu.Unlock()
		}
	}()
	tmp, _ := os.MkdirTemp("", "vdrive-cut")
	defer os.RemoveAll(tmp)
	var mu sync.Mutex
	var totalCalls, totalRecs, detectorCalls int64
	var wg sync.WaitGroup
	// Detect/DetectReader use the global limit: entry-point calls are made under a lock that
	// also fixes the limit; direct detector calls run in parallel.
	var limMu sync.Mutex
	for sh := 0; sh < *shards; sh++ {
		wg.Add(1)
		go func(sh int) {
			defer wg.Done()
			rng := rand.New(rand.NewSource(*seed*131 + int64(sh)))
			f, err := os.Create(filepath.Join(*outDir, fmt.Sprintf("cut-%02d.ndjson", sh)))
			if err != nil {
				fmt.Fprintln(os.Stderr, err)
				os.Exit(2)
			}
			w := bufio.NewWriterSize(f, 1<<20)
			var calls, recs, dcalls int64
			for si := range data {
				if si%*shards != sh {
					continue
				}
				d := data[si]
				cuts := map[int]bool{0: true, len(d): true}
				if len(d) <= *maxCuts {
					for n := 0; n <= len(d); n++ {
						cuts[n] = true
					}
				} else {
					for n := 0; n <= 64; n++ {
						cuts[n] = true
					}
					for _, n := range []int{511, 512, 513, 519, 520, 521, 1151, 1152, 1153, 3071, 3072, 3073, 4095, 4096, 4097} {
						if n <= len(d) {
							cuts[n] = true
						}
					}
					for k := 0; k < *maxCuts; k++ {
						cuts[rng.Intn(len(d)+1)] = true
					}
					// just behind every zip local-header signature (a walker that found the signature reads on)
					for p := 0; p+4 <= len(d); p++ {
						if d[p] == 'P' && d[p+1] == 'K' && d[p+2] == 3 && d[p+3] == 4 {
							for n := p + 1; n <= p+34 && n <= len(d); n++ {
								cuts[n] = true
							}
						}
					}
				}
				for n := range cuts {
					hdr := exact(d[:n])
					wdMu.Lock()
					inflight[sh], since[sh] = hdr, time.Now()
					wdMu.Unlock()
					rec := cutRec{Ev: "cut", Sample: names[si], N: n, NonNil: true, NonEmpty: true}
					run := func(f func() *mimetype.MIME) {
						rec.Calls++
						defer func() {
							if r := recover(); r != nil {
								rec.Panic = fmt.Sprint(r)
							}
						}()
						m := f()
						rec.Returned++
						if m == nil {
							rec.NonNil = false
						} else if m.String() == "" {
							rec.NonEmpty = false
						}
					}
					lims := []uint32{0, 1, uint32(n), uint32(n + 1), 3072, 4294967295}
					if n > 0 {
						lims = append(lims, uint32(n-1))
					}
					limMu.Lock()
					for _, lim := range lims {
						mimetype.SetLimit(lim)
						run(func() *mimetype.MIME { return mimetype.Detect(hdr) })
						if lim != 4294967295 && (n%7 == 0 || n == len(d)) {
							run(func() *mimetype.MIME { m, _ := mimetype.DetectReader(bytes.NewReader(hdr)); return m })
						}
					}
					if n == len(d) || n%29 == 0 {
						p := filepath.Join(tmp, fmt.Sprintf("f%d", sh))
						os.WriteFile(p, hdr, 0o600)
						mimetype.SetLimit(3072)
						run(func() *mimetype.MIME { m, _ := mimetype.DetectFile(p); return m })
					}
					limMu.Unlock()
					for _, lim := range []uint32{0, uint32(n), 3072} {
						for _, det := range dets {
							rec.Calls++
							dcalls++
							func() {
								defer func() {
									if r := recover(); r != nil {
										rec.Panic = fmt.Sprint(r)
									}
								}()
								det(hdr, lim)
								rec.Returned++
							}()
						}
					}
					calls += int64(rec.Calls)
					recs++
					b, _ := stdjson.Marshal(rec)
					w.Write(b)
					w.WriteByte('\n')
					if rec.Panic != "" {
						rep.violate(mkViolation("C01", "panic", hdr, int64(n), fmt.Sprintf("sample %s cut %d: %s", names[si], n, rec.Panic)))
					}
				}
			}
			wdMu.Lock()
			inflight[sh] = nil
			wdMu.Unlock()
			w.Flush()
			f.Close()
			mu.Lock()
			totalCalls += calls
			totalRecs += recs
			detectorCalls += dcalls
			mu.Unlock()
		}(sh)
	}
	wg.Wait()
	mimetype.SetLimit(3072)
	rep.Evaluations = totalCalls
	rep.Nontrivial = totalRecs
	rep.Extra["samples"] = len(data)
	rep.Extra["headers"] = totalRecs
	rep.Extra["direct_detector_calls"] = detectorCalls
	rep.Extra["registered_detectors"] = len(dets)
	rep.Extra["hostile_field_variants"] = hostileFields
	rep.sample(map[string]any{"samples": names[:6], "generated": en})
	rep.write(*report)
	return 0
}

// rrWriter sends each record (Write of the JSON, then WriteByte of the line end) to the next shard.
type rrWriter struct {
	next func() *bufio.Writer
	cur  *bufio.Writer
}

func (r *rrWriter) Write(b []byte) (int, error) {
	r.cur = r.next()
	return r.cur.Write(b)
}
func (r *rrWriter) WriteByte(c byte) error { return r.cur.WriteByte(c) }

func monotraceMain(args []string) int {
	fs := flag.NewFlagSet("monotrace", flag.ExitOnError)
	outDir := fs.String("outdir", "", "trace directory")
	corpus := fs.String("corpus", "", "corpus directory")
	seed := fs.Int64("seed", 1, "seed")
	mutate := fs.Int("mutate", 0, "variants with mutated bytes beyond the first identifying limit")
	report := fs.String("out", "", "report path")
	fs.Parse(args)
	rep := newReport("monotrace")
	rng := rand.New(rand.NewSource(*seed))
	names, data := loadCorpus(*corpus)
	en, ed := extraSamples(rng)
	names, data = append(names, en...), append(data, ed...)
	// series are spread round-robin over several trace files (validated in parallel)
	const monoShards = 16
	var mfiles [monoShards]*os.File
	var mws [monoShards]*bufio.Writer
	for i := range mfiles {
		f, err := os.Create(filepath.Join(*outDir, fmt.Sprintf("mono-%02d.ndjson", i)))
		if err != nil {
			fmt.Fprintln(os.Stderr, err)
			return 2
		}
		mfiles[i] = f
		mws[i] = bufio.NewWriterSize(f, 1<<20)
	}
	nseries := 0
	w := &rrWriter{next: func() *bufio.Writer { nseries++; return mws[nseries%monoShards] }}
	var limits []int
	for l := 1; l <= 700; l++ {
		limits = append(limits, l)
	}
	for l := 768; l <= 16384; l += l / 3 {
		limits = append(limits, l)
	}
	var n, binary, roots int64
	rootsSeen := map[string]bool{}
	emitSeries := func(name string, in []byte) {
		nt := make([]int, 0, len(limits)+1)
		ls := make([]int, 0, len(limits)+1)
		anyBin := false
		for _, l := range append(append([]int{}, limits...), 0) {
			mimetype.SetLimit(uint32(l))
			m := mimetype.Detect(in)
			n++
			ch := bareChain(m)
			v := 0
			if len(ch) > 1 && !contains(ch, "text/plain") {
				v = 1
				anyBin = true
				rootsSeen[ch[len(ch)-2]] = true
			}
			nt = append(nt, v)
			ls = append(ls, l)
		}
		if anyBin {
			binary++
		}
		b, _ := stdjson.Marshal(map[string]any{"ev": "mono", "sample": name, "ls": ls, "nt": nt})
		w.Write(b)
		w.WriteByte('\n')
	}
	// every short binary sample followed by the head of another sample (contradicting evidence later in the file)
	others := []int{}
	for i := range data {
		if i%19 == 0 && len(data[i]) > 0 {
			others = append(others, i)
		}
	}
	nbase := len(data)
	for i := 0; i < nbase; i++ {
		if len(data[i]) == 0 || len(data[i]) > 64 {
			continue
		}
		for _, j := range others {
			t := data[j]
			if len(t) > 600 {
				t = t[:600]
			}
			names = append(names, names[i]+"|"+names[j])
			data = append(data, append(append([]byte{}, data[i]...), t...))
		}
	}
	// through a pipe (a non-regular *os.File): limits ascending, unlimited last
	for i := 0; i < nbase; i += 7 {
		d := data[i]
		if len(d) == 0 {
			continue
		}
		nt, ls := []int{}, []int{}
		for _, l := range []int{16, 64, 3072, 1 << 20, 0} {
			mimetype.SetLimit(uint32(l))
			pr, pw, err := os.Pipe()
			if err != nil {
				break
			}
			go func() { pw.Write(d); pw.Close() }()
			m, _ := mimetype.DetectReader(pr)
			pr.Close()
			n++
			ch := bareChain(m)
			v := 0
			if len(ch) > 1 && !contains(ch, "text/plain") {
				v = 1
			}
			nt, ls = append(nt, v), append(ls, l)
		}
		b, _ := stdjson.Marshal(map[string]any{"ev": "mono", "sample": names[i] + " via pipe", "ls": ls, "nt": nt})
		w.Write(b)
		w.WriteByte('\n')
	}
	// large files that carry a complete small archive / document somewhere after an unknown header and
	// a long unrelated body (signatures anchored at the END of the header move as the limit grows)
	{
		small, err := buildZip([]zipEntry{{"manifest.json", 40, 0}, {"payload.bin", 120, 0}}, false, false, rng, nil)
		if err == nil {
			bigLimits := []int{32768, 65536, 65557, 70000, 131072, 262144, 1 << 20}
			saved := limits
			limits = append(append([]int{}, limits...), bigLimits...)
			filler := make([]byte, 200000)
			rng.Read(filler)
			for i := range filler {
				if filler[i] == 'P' { // no accidental zip signatures
					filler[i] = 'Q'
				}
			}
			for _, inner := range [][]byte{small, data[0]} {
				for _, off := range []int{64, 512, 3000} {
					head := bytes.Repeat([]byte{0x07, 0xF3, 0x99, 0xC2}, off/4) // no format of the tree starts like this
					in := append(append(append([]byte{}, head...), inner...), filler...)
					emitSeries(fmt.Sprintf("embedded@%d+200KB", off), exact(in))
				}
			}
			limits = saved
		}
	}
	for i, d := range data {
		tails := map[string][]byte{"text": bytes.Repeat([]byte("lorem ipsum dolor sit amet, \n"), 300), "nul": make([]byte, 8192),
			"nl": bytes.Repeat([]byte("\nsecond line of a line-oriented format\n"), 200), "dash": append([]byte("-WB_MC1.0\n"), make([]byte, 4096)...)}
		rnd := make([]byte, 8192)
		rng.Read(rnd)
		tails["random"] = rnd
		for tn, t := range tails {
			in := append(append([]byte{}, d...), t...)
			if len(in) > 20000 {
				in = in[:20000]
			}
			emitSeries(names[i]+"+"+tn, exact(in))
			for m := 0; m < *mutate; m++ {
				// mutate bytes beyond the sample itself (may turn on another binary signature: allowed)
				v := append([]byte{}, in...)
				for k := 0; k < 8; k++ {
					p := len(d) + rng.Intn(len(v)-len(d))
					v[p] = byte(rng.Intn(256))
				}
				emitSeries(names[i]+"+"+tn+"~mut", exact(v))
			}
		}
		if i < 4 {
			rep.sample(map[string]any{"sample": names[i], "tails": []string{"text", "nul", "random", "nl", "dash"}, "limits": len(limits) + 1})
		}
	}
	for i := range mfiles {
		mws[i].Flush()
		mfiles[i].Close()
	}
	mimetype.SetLimit(3072)
	roots = int64(len(rootsSeen))
	rep.Evaluations = n
	rep.Nontrivial = binary
	rep.Extra["series_with_a_binary_identification"] = binary
	rep.Extra["distinct_root_level_binary_formats_seen"] = roots
	rep.Extra["limits_per_series"] = len(limits) + 1
	rep.write(*report)
	return 0
}
