package main

import (
	"bytes"
	stdjson "encoding/json"
	"flag"
	"fmt"
	"math/rand"
	"os"
	"runtime"
	"sort"
	"sync"
	"sync/atomic"

	"github.com/gabriel-vasile/mimetype"
)

// jsonVec is one terminal state of MC_Json*.tla (operator Vec of JsonScan.tla).
type jsonVec struct {
	I  []int                 `json:"i"`
	Q  string                `json:"q"`
	O  [5]stdjson.RawMessage `json:"o"` // ok, parsed, ib, first, qsat (model observables)
	A  [2]bool               `json:"a"` // model WholeAccept, TruncAccept
	S  [3]stdjson.RawMessage `json:"s"` // strict live, accepting, maxdepth
	R  [2]bool               `json:"r"` // relaxed live, accepting
	C  []string              `json:"c"` // allowed classes (C10)
	Op bool                  `json:"op"`
	RS bool                  `json:"rs"` // RefSays(q)
	RM bool                  `json:"rm"` // RefMay(q)
}

type jvec struct {
	raw                  []byte
	q                    string
	mOK                  bool
	mParsed, mIB, mFirst int
	mQsat                bool
	mWhole, mTrunc       bool
	sLive, sAcc          bool
	maxd                 int
	rLive, rAcc          bool
	cls                  []string
	op, rs, rm           bool
}

func decodeVec(b []byte) (jvec, error) {
	var v jsonVec
	if err := stdjson.Unmarshal(b, &v); err != nil {
		return jvec{}, err
	}
	var out jvec
	out.raw = ints2bytes(v.I)
	out.q = v.Q
	stdjson.Unmarshal(v.O[0], &out.mOK)
	stdjson.Unmarshal(v.O[1], &out.mParsed)
	stdjson.Unmarshal(v.O[2], &out.mIB)
	stdjson.Unmarshal(v.O[3], &out.mFirst)
	stdjson.Unmarshal(v.O[4], &out.mQsat)
	out.mWhole, out.mTrunc = v.A[0], v.A[1]
	stdjson.Unmarshal(v.S[0], &out.sLive)
	stdjson.Unmarshal(v.S[1], &out.sAcc)
	stdjson.Unmarshal(v.S[2], &out.maxd)
	out.rLive, out.rAcc = v.R[0], v.R[1]
	out.cls = v.C
	out.op, out.rs, out.rm = v.Op, v.RS, v.RM
	return out, nil
}

// the model's token constants are the Go ones (TokNull = 2 ... TokObject = 128)

type jsonNodes struct {
	text, json, geo, har, gltf, ndjson *mimetype.MIME
	det                                map[string]func([]byte, uint32) bool
	jsonIdx                            int
	textChildren                       []*mimetype.MIME
}

func loadJSONNodes() *jsonNodes {
	n := &jsonNodes{det: map[string]func([]byte, uint32) bool{}}
	n.text = findNode("text/plain", ".txt")
	n.json = findNode("application/json", ".json")
	n.geo = findNode("application/geo+json", ".geojson")
	n.har = findNode("application/json", ".har")
	n.gltf = findNode("model/gltf+json", ".gltf")
	n.ndjson = findNode("application/x-ndjson", ".ndjson")
	if n.text == nil || n.json == nil || n.geo == nil || n.har == nil || n.gltf == nil || n.ndjson == nil {
		fmt.Fprintln(os.Stderr, "json nodes not found in tree")
		os.Exit(2)
	}
	n.det["json"] = mimetype.VerifDetector(n.json)
	n.det["geo"] = mimetype.VerifDetector(n.geo)
	n.det["har"] = mimetype.VerifDetector(n.har)
	n.det["gltf"] = mimetype.VerifDetector(n.gltf)
	for _, t := range mimetype.VerifTree() {
		if t.M == n.text {
			n.textChildren = t.Children
		}
	}
	n.jsonIdx = -1
	for i, c := range n.textChildren {
		if c == n.json {
			n.jsonIdx = i
		}
	}
	return n
}

// classOf maps a detection result to the C10 class, "" when not in the JSON family,
// and reports whether a higher-priority signature took the input (exemption).
func (n *jsonNodes) classOf(m *mimetype.MIME) (class string, exempt bool) {
	ch := chain(m)
	base := baseType(ch[0])
	switch {
	case base == "application/geo+json":
		return "geo", false
	case base == "model/gltf+json":
		return "gltf", false
	case base == "application/json" && m.Extension() == ".har":
		return "har", false
	case base == "application/json":
		return "json", false
	}
	// not in the family: exempt only when an earlier root format or an earlier text
	// sub-format claimed the input
	if len(ch) < 2 {
		return "", false // bare application/octet-stream
	}
	if baseType(ch[len(ch)-2]) != "text/plain" {
		return "", true // a binary root format matched
	}
	if len(ch) == 2 {
		return "", false // plain text/plain
	}
	sub := baseType(ch[len(ch)-3])
	for i, c := range n.textChildren {
		if i >= n.jsonIdx {
			break
		}
		if c.String() == sub {
			return "", true
		}
	}
	return "", false
}

var xVariants = []byte{'y', 'z', 'G', '_', 0x7f, 0x80, 0xC3, 0xA9, 0xFF, 'a', 'F'}

// variant substitutes members of the same byte class; the reference verdicts and the
// model observables are invariant under these substitutions:
//
//	'1' -> 2..9, ' ' -> \t \n \r, 'e' -> 'E', and 'x' -> other bytes that are neither
//	structural, nor hex digits, nor literal/number starters.
func variant(raw []byte, rng *rand.Rand) []byte {
	out := make([]byte, len(raw))
	for i, c := range raw {
		switch c {
		case '1':
			out[i] = byte('2' + rng.Intn(8))
		case ' ':
			out[i] = " \t\n\r"[rng.Intn(4)]
		case 'e':
			out[i] = "eE"[rng.Intn(2)]
		case 'x':
			v := xVariants[rng.Intn(len(xVariants))]
			if v == 'a' || v == 'F' { // hex digits would change \u handling
				v = 'y'
			}
			out[i] = v
		default:
			out[i] = c
		}
	}
	return exact(out)
}

// runVariant stretches every blank into a run of 8..17 blanks of one kind and every 'x' OUTSIDE a string
// into a run of form feeds / escapes / vertical tabs (never JSON whitespace): reference verdicts are
// invariant (a blank stays a blank, a stray byte stays a stray byte), lengths and counters are not.
// Returns nil if the vector has neither.
func runVariant(raw []byte, rng *rand.Rand) []byte {
	var out []byte
	inStr, esc, hit := false, false, false
	for _, c := range raw {
		switch {
		case inStr:
			out = append(out, c)
			if esc {
				esc = false
			} else if c == '\\' {
				esc = true
			} else if c == '"' {
				inStr = false
			}
		case c == '"':
			inStr = true
			out = append(out, c)
		case c == ' ':
			hit = true
			out = append(out, bytes.Repeat([]byte{" \t\n\r"[rng.Intn(4)]}, 8+rng.Intn(10))...)
		case c == 'x':
			hit = true
			n := 8 + rng.Intn(10)
			out = append(out, '\f') // at least one byte that is not whitespace
			for i := 1; i < n; i++ {
				out = append(out, "\f\x1b\f\v\f\n\t\r"[rng.Intn(3+5*rng.Intn(2))])
			}
		default:
			out = append(out, c)
		}
	}
	if !hit {
		return nil
	}
	return exact(out)
}

func firstNonSpaceIsOpen(b []byte) bool {
	for _, c := range b {
		if c == ' ' || c == '\t' || c == '\r' || c == '\n' {
			continue
		}
		return c == '{' || c == '['
	}
	return false
}

func init() { cmds["jsonvec"] = jsonvecMain }

func jsonvecMain(args []string) int {
	fs := flag.NewFlagSet("jsonvec", flag.ExitOnError)
	in := fs.String("in", "", "TLC log with vector lines")
	out := fs.String("out", "", "report path")
	seed := fs.Int64("seed", 1, "seed for class expansion")
	nvar := fs.Int("variants", 1, "class-expanded variants per vector")
	detect := fs.Bool("detect", true, "also replay through Detect")
	capv := fs.Int("cap", 4096, "recursion cap of the model run (vectors deeper than the real cap are skipped)")
	fs.Parse(args)

	nodes := loadJSONNodes()
	rep := newReport("jsonvec")
	var vecs []jvec
	err := tlcVectorLines(*in, func(b []byte) {
		v, err := decodeVec(b)
		if err != nil {
			fmt.Fprintln(os.Stderr, "decode:", err)
			os.Exit(2)
		}
		vecs = append(vecs, v)
	})
	if err != nil {
		fmt.Fprintln(os.Stderr, err)
		return 2
	}
	if len(vecs) == 0 {
		fmt.Fprintln(os.Stderr, "no vectors in", *in)
		return 2
	}
	_ = capv

	var evals, nontriv, truncInside, exempt int64
	workers := runtime.NumCPU()

	// ---- phase 1: scanner and detector level (no global state) ----
	var wg sync.WaitGroup
	chunk := (len(vecs) + workers - 1) / workers
	for w := 0; w < workers; w++ {
		lo, hi := w*chunk, (w+1)*chunk
		if hi > len(vecs) {
			hi = len(vecs)
		}
		if lo >= hi {
			continue
		}
		wg.Add(1)
		go func(w, lo, hi int) {
			defer wg.Done()
			rng := rand.New(rand.NewSource(*seed*1000 + int64(w)))
			privWhole := make([]bool, hi-lo) // verdict on a private copy, for the reused-buffer pass below
			defer func() {
				// second pass: vector after vector in ONE caller-owned buffer per length, nothing else in between
				reuse := map[int][]byte{}
				for k := lo; k < hi; k++ {
					v := &vecs[k]
					n := len(v.raw)
					if n == 0 {
						continue
					}
					buf, ok := reuse[n]
					if !ok {
						buf = make([]byte, n)
						reuse[n] = buf
					}
					copy(buf, v.raw)
					if r0 := nodes.det[v.q](buf, 0); r0 != privWhole[k-lo] {
						prop := map[bool]string{true: "C08", false: "C09"}[privWhole[k-lo]]
						if v.q != "json" {
							prop = "C10"
						}
						rep.violate(mkViolation(prop, "verdict-differs-in-a-reused-buffer", v.raw, 0, fmt.Sprintf("query=%s: private copy %v, reused buffer %v", v.q, privWhole[k-lo], r0)))
					}
				}
			}()
			for k := lo; k < hi; k++ {
				v := &vecs[k]
				inputs := [][]byte{v.raw}
				for j := 0; j < *nvar; j++ {
					inputs = append(inputs, variant(v.raw, rng))
				}
				stretched := -1
				if v.q == "json" {
					if rv := runVariant(v.raw, rng); rv != nil {
						stretched = len(inputs)
						inputs = append(inputs, rv)
					}
				}
				if v.sLive && v.op {
					atomic.AddInt64(&nontriv, 1)
					if !v.sAcc {
						atomic.AddInt64(&truncInside, 1)
					}
				}
				for vi, raw := range inputs {
					atomic.AddInt64(&evals, 1)
					n := len(raw)
					parsed, inspected, first, qsat := mimetype.VerifJSONParse(v.q, raw)
					if vi != stretched && (parsed != v.mParsed || inspected != v.mIB || first != v.mFirst || qsat != v.mQsat) {
						rep.drift(fmt.Sprintf("Parse(%s,%q) real=(%d,%d,%d,%v) model=(%d,%d,%d,%v)", v.q, raw, parsed, inspected, first, qsat, v.mParsed, v.mIB, v.mFirst, v.mQsat))
					}
					// oracle sanity: strict reference vs encoding/json
					if vi == 0 {
						want := stdjson.Valid(raw) && firstNonSpaceIsOpen(raw)
						if want != v.sAcc {
							rep.oracle(fmt.Sprintf("%q strict=%v encoding/json=%v", raw, v.sAcc, want))
						}
					}
					det := nodes.det[v.q]
					whole0 := det(raw, 0)
					whole1 := det(raw, uint32(n+1))
					trunc := false
					if n > 0 {
						trunc = det(raw, uint32(n))
					}
					if vi == 0 {
						privWhole[k-lo] = whole0
					}
					if whole0 != whole1 {
						rep.violate(mkViolation("C08", "whole-mode-differs-limit0-vs-len+1", raw, int64(n+1), fmt.Sprintf("query=%s limit0=%v limit=len+1=%v", v.q, whole0, whole1)))
					}
					if vi != stretched && (whole0 != v.mWhole || (n > 0 && trunc != v.mTrunc)) {
						rep.drift(fmt.Sprintf("accept(%s,%q) real=(whole %v, trunc %v) model=(%v,%v)", v.q, raw, whole0, trunc, v.mWhole, v.mTrunc))
					}
					if v.q == "json" {
						if v.sAcc && !whole0 {
							rep.violate(mkViolation("C08", "valid-json-rejected-whole", raw, 0, "detector application/json rejects a valid RFC 8259 document examined in full"))
						}
						if n > 0 && v.sLive && v.op && !trunc {
							rep.violate(mkViolation("C08", "valid-prefix-rejected-truncated", raw, int64(n), "detector application/json rejects a prefix (cut after the opening bracket) of a valid document when len == limit"))
						}
						if whole0 && !v.rAcc {
							rep.violate(mkViolation("C09", "malformed-accepted-whole", raw, 0, "detector application/json accepts a structurally malformed document examined in full"))
						}
						if trunc && !v.rLive {
							rep.violate(mkViolation("C09", "non-prefix-accepted-truncated", raw, int64(n), "detector application/json accepts bytes that are not a prefix of any well-formed document"))
						}
					} else {
						// C10 at detector level
						if v.sLive && v.op && v.rs {
							acc := whole0
							if !v.sAcc {
								acc = trunc
							}
							if !acc {
								rep.violate(mkViolation("C10", "subtype-missed-"+v.q, raw, int64(n), "deciding top-level member present, detector rejects"))
							}
						}
						if v.sAcc && whole0 && !v.rm {
							rep.violate(mkViolation("C10", "subtype-wrong-"+v.q, raw, 0, "detector accepts without a deciding top-level member"))
						}
						if n > 0 && v.sLive && !v.sAcc && trunc && !v.rm {
							rep.violate(mkViolation("C10", "subtype-wrong-"+v.q, raw, int64(n), "detector accepts (truncated) without a deciding top-level member"))
						}
					}
				}
			}
		}(w, lo, hi)
	}
	wg.Wait()

	// ---- phase 2: through Detect, grouped by length so that SetLimit is shared ----
	var detections int64
	if *detect {
		byLen := map[int][]int{}
		for k := range vecs {
			if vecs[k].q != "json" && len(vecs[k].cls) == 0 {
				continue
			}
			byLen[len(vecs[k].raw)] = append(byLen[len(vecs[k].raw)], k)
		}
		lens := []int{}
		for l := range byLen {
			lens = append(lens, l)
		}
		sort.Ints(lens)
		tail := []byte(`,"zz":[1,2,{"a":null}]}]} trailing`)
		for _, L := range lens {
			idx := byLen[L]
			type mode struct {
				limit   uint32
				whole   bool
				useTail bool
			}
			modes := []mode{{0, true, false}, {uint32(L + 1), true, false}}
			if L > 0 {
				modes = append(modes, mode{uint32(L), false, false}, mode{uint32(L), false, true})
			}
			for _, md := range modes {
				mimetype.SetLimit(md.limit)
				var wg2 sync.WaitGroup
				ch := (len(idx) + workers - 1) / workers
				for w := 0; w < workers; w++ {
					lo, hi := w*ch, (w+1)*ch
					if hi > len(idx) {
						hi = len(idx)
					}
					if lo >= hi {
						continue
					}
					wg2.Add(1)
					go func(lo, hi int) {
						defer wg2.Done()
						first := map[int]string{} // class on a private copy, for the reused-buffer pass below
						defer func() {
							if md.limit != 0 || md.useTail || L == 0 {
								return
							}
							// second pass: the vectors of this length follow each other in ONE caller-owned buffer
							buf := make([]byte, L)
							for _, k := range idx[lo:hi] {
								c1, ok := first[k]
								if !ok {
									continue
								}
								copy(buf, vecs[k].raw)
								c2, ex := nodes.classOf(mimetype.Detect(buf))
								atomic.AddInt64(&detections, 1)
								if ex || c1 == c2 {
									continue
								}
								prop := "C10"
								if c2 == "" {
									prop = "C08"
								} else if c1 == "" {
									prop = "C09"
								}
								rep.violate(mkViolation(prop, "detect-class-differs-in-a-reused-buffer", vecs[k].raw, 0, fmt.Sprintf("class %q on a private copy, %q in a buffer that held another document of the same length a moment ago", c1, c2)))
							}
						}()
						for _, k := range idx[lo:hi] {
							v := &vecs[k]
							if v.q != "json" {
								continue // Detect-level results do not depend on the model's query type
							}
							raw := v.raw
							if md.useTail {
								raw = exact(append(append([]byte{}, v.raw...), tail...))
							}
							var m *mimetype.MIME
							if k%3 == 0 { // a third of the vectors go through the reader entry point
								var rerr error
								m, rerr = mimetype.DetectReader(bytes.NewReader(raw))
								if rerr != nil {
									continue
								}
							} else {
								m = mimetype.Detect(raw)
							}
							atomic.AddInt64(&detections, 1)
							cls, ex := nodes.classOf(m)
							if ex {
								atomic.AddInt64(&exempt, 1)
								continue
							}
							if md.limit == 0 && !md.useTail && k%3 != 0 {
								first[k] = cls
							}
							inFam := cls != ""
							lim := int64(md.limit)
							if md.whole {
								if v.sAcc && !inFam {
									rep.violate(mkViolation("C08", "detect-valid-json-not-json-whole", raw, lim, "Detect reports "+m.String()))
								}
								if inFam && !v.rAcc {
									rep.violate(mkViolation("C09", "detect-malformed-reported-json-whole", raw, lim, "Detect reports "+m.String()+" "+m.Extension()))
								}
								if v.sAcc && inFam && !contains(v.cls, cls) {
									rep.violate(mkViolation("C10", "detect-class-whole", raw, lim, fmt.Sprintf("Detect class %s, statement allows %v", cls, v.cls)))
								}
							} else {
								if v.sLive && v.op && !inFam {
									rep.violate(mkViolation("C08", "detect-valid-prefix-not-json-truncated", raw, lim, "Detect reports "+m.String()))
								}
								if inFam && !v.rLive {
									rep.violate(mkViolation("C09", "detect-non-prefix-reported-json-truncated", raw, lim, "Detect reports "+m.String()+" "+m.Extension()))
								}
								if v.sLive && v.op && inFam && !contains(v.cls, cls) {
									rep.violate(mkViolation("C10", "detect-class-truncated", raw, lim, fmt.Sprintf("Detect class %s, statement allows %v", cls, v.cls)))
								}
							}
						}
					}(lo, hi)
				}
				wg2.Wait()
			}
		}
		mimetype.SetLimit(3072)
	}

	rep.Evaluations = evals + detections
	rep.Nontrivial = nontriv
	rep.Extra["vectors"] = len(vecs)
	rep.Extra["parse_replays"] = evals
	rep.Extra["detections"] = detections
	rep.Extra["valid_prefix_vectors_cut_inside_document"] = truncInside
	rep.Extra["exempt_higher_priority"] = exempt
	for i := 0; i < len(vecs) && len(rep.Samples) < 8; i += len(vecs)/8 + 1 {
		v := vecs[i]
		rep.sample(map[string]any{"input": fmt.Sprintf("%q", v.raw), "query": v.q, "model": []any{v.mOK, v.mParsed, v.mIB, v.mFirst, v.mQsat}, "strict_live_acc": []bool{v.sLive, v.sAcc}, "relaxed_live_acc": []bool{v.rLive, v.rAcc}, "classes": v.cls})
	}
	rep.write(*out)
	return 0
}

func contains(a []string, s string) bool {
	for _, x := range a {
		if x == s {
			return true
		}
	}
	return false
}
