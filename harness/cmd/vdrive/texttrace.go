package main

import (
	"bufio"
	"bytes"
	stdjson "encoding/json"
	"flag"
	"fmt"
	"math/rand"
	"os"
	"path/filepath"

	"github.com/gabriel-vasile/mimetype"
)

// texttrace records detections for TraceText.tla: (1) every binary-data byte value at
// positions of text samples of every kind, inside and outside the limit, with and
// without (complete / truncated) byte-order marks; (2) UTF-8, Latin-1 and CP-1252 prose
// cut at every limit; (3) the corpus.

type textRec struct {
	Ev    string   `json:"ev"`
	Raw   []int    `json:"raw"`
	Limit int64    `json:"limit"`
	Chain []string `json:"chain"`
	CS    string   `json:"cs"`
	Note  string   `json:"note"`
}

var textBodies = map[string]string{
	"empty":   "",
	"prose":   "The quick brown fox jumps over the lazy dog.\nSecond line.\r\n",
	"json":    `{"a":[1,2,{"b":null}],"c":"d"}`,
	"html":    "<!DOCTYPE html><html><head><title>t</title></head><body>x</body></html>",
	"xml":     `<?xml version="1.0" encoding="UTF-8"?><a><b/></a>`,
	"csv":     "a,b,c\n1,2,3\n4,5,6\n",
	"ndjson":  "{\"a\":1}\n{\"a\":2}\n",
	"shebang": "#!/usr/bin/python\nprint(1)\n",
	"vcard":   "BEGIN:VCARD\nVERSION:3.0\nEND:VCARD\n",
	"latin1":  "caf\xe9 cr\xe8me br\xfbl\xe9e\n",
	"utf8":    "caf\xc3\xa9 \xe6\x97\xa5\xe6\x9c\xac \xf0\x9f\x98\x80 end\n",
	"svg":     `<svg xmlns="http://www.w3.org/2000/svg"></svg>`,
	"php":     "<?php echo 1; ?>",
	"srt":     "1\n00:00:01,000 --> 00:00:02,000\nhello\n",
}

var marks = map[string][]byte{
	"none": {}, "utf8": {0xEF, 0xBB, 0xBF}, "utf16be": {0xFE, 0xFF}, "utf16le": {0xFF, 0xFE},
	"utf32be": {0, 0, 0xFE, 0xFF}, "utf32le": {0xFF, 0xFE, 0, 0},
	"trunc-utf8": {0xEF, 0xBB}, "trunc-ff": {0xFF}, "trunc-utf32be": {0, 0, 0xFE},
}

var prose = map[string]string{
	"utf8-fr":   "Le c\xc5\x93ur d\xc3\xa9\xc3\xa7u mais l'\xc3\xa2me plut\xc3\xb4t na\xc3\xafve, Lou\xc3\xbfs r\xc3\xaava de crapa\xc3\xbcter en cano\xc3\xab au del\xc3\xa0 des \xc3\xaeles.",
	"utf8-jp":   "\xe6\x97\xa5\xe6\x9c\xac\xe8\xaa\x9e\xe3\x81\xae\xe3\x83\x86\xe3\x82\xad\xe3\x82\xb9\xe3\x83\x88 and ASCII \xf0\x9f\x98\x80\xf0\x9f\x8e\x89 done",
	"latin1":    "Le c\x9cur d\xe9\xe7u mais l'\xe2me plut\xf4t na\xefve r\xeava de crapa\xfcter en cano\xeb.",
	"cp1252":    "He said \x93hello\x94 \x85 and left \x96 quickly\x85",
	"nel-only":  "line one\x85line two\x85",
	"ascii":     "Plain ASCII text with\ttabs and\x1b[0m escapes.\n",
	"tail-cut2": "abc\xe6\x97",
	"tail-cut3": "abc\xf0\x9f\x98",
}

func init() { cmds["texttrace"] = texttraceMain }

func texttraceMain(args []string) int {
	fs := flag.NewFlagSet("texttrace", flag.ExitOnError)
	outDir := fs.String("outdir", "", "trace directory")
	shards := fs.Int("shards", 16, "trace files")
	seed := fs.Int64("seed", 1, "seed")
	full := fs.Bool("full", false, "every binary value at every position of every body (thorough)")
	corpus := fs.String("corpus", "", "corpus directory")
	report := fs.String("out", "", "report path")
	fs.Parse(args)
	rep := newReport("texttrace")
	rng := rand.New(rand.NewSource(*seed))
	ws := make([]*bufio.Writer, *shards)
	fsx := make([]*os.File, *shards)
	for i := range ws {
		f, err := os.Create(filepath.Join(*outDir, fmt.Sprintf("text-%02d.ndjson", i)))
		if err != nil {
			fmt.Fprintln(os.Stderr, err)
			return 2
		}
		fsx[i] = f
		ws[i] = bufio.NewWriterSize(f, 1<<20)
	}
	var n, binCases, textLeaf int64
	emit := func(in []byte, limit int64, note string) {
		mimetype.SetLimit(uint32(limit))
		m := mimetype.Detect(exact(in))
		hdr := in
		if limit > 0 && int64(len(in)) > limit {
			hdr = in[:limit]
		}
		if len(hdr) > 12000 {
			return
		}
		ch := bareChain(m)
		if ch[0] == "text/plain" {
			textLeaf++
		}
		r := textRec{Ev: "detect", Raw: bytes2ints(hdr), Limit: limit, Chain: ch, CS: charsetOf(m), Note: note}
		b, _ := stdjson.Marshal(r)
		k := int(n) % *shards
		ws[k].Write(b)
		ws[k].WriteByte('\n')
		n++
		if n%4001 == 1 {
			rep.sample(map[string]any{"header": fmt.Sprintf("%q", hdr), "limit": limit, "chain": ch, "charset": r.CS})
		}
	}
	binVals := []byte{}
	for b := 0; b < 0x20; b++ {
		if b <= 8 || b == 0x0B || (b >= 0x0E && b <= 0x1A) || (b >= 0x1C && b <= 0x1F) {
			binVals = append(binVals, byte(b))
		}
	}
	neighbours := []byte{0x09, 0x0A, 0x0C, 0x0D, 0x1B, 0x7F, 0x80}
	bodyNames := []string{}
	for k := range textBodies {
		bodyNames = append(bodyNames, k)
	}
	sortStrings(bodyNames)
	markNames := []string{}
	for k := range marks {
		markNames = append(markNames, k)
	}
	sortStrings(markNames)
	// (1) mark x body x byte value x position x limit relation
	for _, mk := range markNames {
		for _, bn := range bodyNames {
			base := append(append([]byte{}, marks[mk]...), textBodies[bn]...)
			vals := append(append([]byte{}, binVals...), neighbours...)
			for _, v := range vals {
				positions := []int{0, 1, len(base) / 2, len(base)}
				if *full && mk == "none" {
					positions = positions[:0]
					for p := 0; p <= len(base); p++ {
						positions = append(positions, p)
					}
				} else if !*full && rng.Intn(3) != 0 {
					positions = []int{[]int{0, 1, len(base) / 2, len(base)}[rng.Intn(4)]}
				}
				for _, p := range positions {
					if p > len(base) {
						continue
					}
					in := append(append(append([]byte{}, base[:p]...), v), base[p:]...)
					binCases++
					// limit relations: unlimited, > len, = len, cutting just before / just after the byte
					lims := []int64{0, int64(len(in) + 5), int64(len(in))}
					if p > 0 {
						lims = append(lims, int64(p)) // byte is the first one outside the header
					}
					lims = append(lims, int64(p+1)) // byte is the last one inside
					if !*full {
						lims = []int64{lims[rng.Intn(len(lims))], lims[rng.Intn(len(lims))]}
					}
					for _, lim := range lims {
						emit(in, lim, mk+"/"+bn)
					}
				}
			}
		}
	}
	// (1a) the header is exactly a mark (the file is only the mark, or the limit cuts right behind it)
	for _, mk := range markNames {
		if len(marks[mk]) == 0 {
			continue
		}
		emit(marks[mk], 0, "mark-only/"+mk)
		emit(marks[mk], 3072, "mark-only/"+mk)
		for _, bn := range bodyNames[:3] {
			in := append(append([]byte{}, marks[mk]...), textBodies[bn]...)
			emit(in, int64(len(marks[mk])), "mark-at-the-cut/"+mk)
			emit(in, int64(len(marks[mk])+1), "mark-at-the-cut/"+mk)
		}
	}
	// (1b) long text bodies: a binary byte deep inside a header of several KiB
	long := bytes.Repeat([]byte("The quick brown fox jumps over the lazy dog. 0123456789\n"), 200) // 11 400 bytes
	for _, v := range []byte{0x00, 0x01, 0x08, 0x0B, 0x0E, 0x1A, 0x1C, 0x1F} {
		for _, p := range []int{3071, 3072, 4095, 4096, 4097, 5000, 8191, 8192, 8193, 11000} {
			in := append([]byte{}, long...)
			in[p] = v
			binCases++
			for _, lim := range []int64{0, 4294967295, int64(p), int64(p + 1), int64(p + 100), 3072} {
				emit(in, lim, "long")
			}
		}
	}
	// (1b') a lone binary byte at EVERY position of a 600-byte text (detectors consulted before text/plain see,
	// and must not alter, the same bytes)
	for _, v := range []byte{0x00, 0x1A} {
		for p := 0; p < 600; p++ {
			in := append([]byte{}, long[:600]...)
			in[p] = v
			binCases++
			emit(in, 0, "lone-binary-byte")
		}
	}
	// (1c) long ASCII bodies whose only non-ASCII bytes come late (C11 beyond any sampling window)
	for _, grp := range [][]byte{{0xE9}, {0x85}, {0x9F}, {0xC3, 0xA9}, {0xC3, 'x'}, {0xEF, 0xBF, 0xBD}, {0xF0, 0x9F, 0x98, 0x80}, {0xF0, 0x9F, 0x98}, {0xFF}} {
		for _, p := range []int{1023, 1024, 4095, 4096, 8192, 11000} {
			in := append([]byte{}, long...)
			copy(in[p:], grp)
			for _, lim := range []int64{0, int64(p + len(grp)), int64(p + len(grp) + 50), int64(p + 1)} {
				emit(in, lim, "long-late-nonascii")
			}
		}
	}
	// (1d) UTF-16 / UTF-32 text WITHOUT a byte-order mark: full of 0x00, i.e. binary by the byte-class rule
	for _, word := range []string{"hello world, this is text", "abcd", "a", "line one\nline two\n"} {
		for _, enc := range []string{"16le", "16be", "32le", "32be"} {
			var in []byte
			for _, c := range []byte(word) {
				switch enc {
				case "16le":
					in = append(in, c, 0)
				case "16be":
					in = append(in, 0, c)
				case "32le":
					in = append(in, c, 0, 0, 0)
				case "32be":
					in = append(in, 0, 0, 0, c)
				}
			}
			binCases++
			for _, lim := range []int64{0, 3072, int64(len(in)), int64(len(in) - 1), 8, 9, 16} {
				if lim >= 0 {
					emit(in, lim, "utf"+enc+"-without-mark")
				}
			}
		}
	}
	// (1e) the same late bytes behind an XML / HTML prologue without a declaration (sniffing serves these leaves too)
	for _, pro := range []string{`<?xml version="1.0"?><doc>`, `<html><body><p>`} {
		for _, grp := range [][]byte{{0xE9}, {0x85}, {0xC3, 0xA9}, {0xFF}} {
			for _, p := range []int{1023, 1024, 1025, 2000, 4096} {
				in := append([]byte(pro), long...)
				copy(in[p:], grp)
				for _, lim := range []int64{0, 3072, int64(p + len(grp) + 20)} {
					emit(in, lim, "undeclared-markup")
				}
			}
		}
	}
	// (2) prose cut at every limit
	for name, p := range prose {
		in := []byte(p)
		for lim := 1; lim <= len(in)+1; lim++ {
			emit(in, int64(lim), "prose/"+name)
		}
		emit(in, 0, "prose/"+name)
	}
	// (3) corpus at a few limits
	if *corpus != "" {
		names, data := loadCorpus(*corpus)
		for i, d := range data {
			for _, lim := range []int64{0, 3072, int64(1 + rng.Intn(len(d)+1))} {
				emit(d, lim, "corpus/"+names[i])
			}
		}
	}
	mimetype.SetLimit(3072)
	for i := range ws {
		ws[i].Flush()
		fsx[i].Close()
	}
	rep.Evaluations = n
	rep.Nontrivial = binCases
	rep.Extra["binary_byte_placements"] = binCases
	rep.Extra["text_plain_leaf_results"] = textLeaf
	rep.write(*report)
	return 0
}

func sortStrings(a []string) {
	for i := 1; i < len(a); i++ {
		for j := i; j > 0 && a[j] < a[j-1]; j-- {
			a[j], a[j-1] = a[j-1], a[j]
		}
	}
}
