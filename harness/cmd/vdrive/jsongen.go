package main

import (
	"math/rand"
	"strings"
)

// jsonGen produces valid RFC 8259 documents with all token spellings, layouts and
// string contents (structural characters, every escape form, multi-byte UTF-8).
type jsonGen struct {
	rng    *rand.Rand
	layout int // 0 compact, 1 spaces, 2 LF-indented, 3 CRLF-indented, 4 random
}

func (g *jsonGen) ws() string {
	switch g.layout {
	case 0:
		return ""
	case 1:
		return " "
	case 2:
		return "\n  "
	case 3:
		return "\r\n\t"
	}
	return []string{"", "", " ", "\n", "\r\n ", "\t", "  "}[g.rng.Intn(7)]
}

var strPieces = []string{
	"a", "hello", "x y", ",", "]", "}", "{", "[", ":", "null", "true", "1", "-",
	`\"`, `\\`, `\/`, `\b`, `\f`, `\n`, `\r`, `\t`, `é`, `😀`, `\u0000`, `ꯍ`, `ꯍ`,
	"é", "日本", "€", "\U0001F600", "/", "'", "#", "<b>", "\x7f",
}

var interestKeys = []string{"type", "log", "asset", "version", "creator", "entries", "Type", "types", "features", "geometry"}
var interestVals = []string{"Feature", "FeatureCollection", "Point", "LineString", "Polygon", "MultiPoint",
	"MultiLineString", "MultiPolygon", "GeometryCollection", "1.0", "2.0", "feature", "3.0", "1.2"}

func (g *jsonGen) str() string {
	var b strings.Builder
	b.WriteByte('"')
	switch g.rng.Intn(6) {
	case 0:
		b.WriteString(interestVals[g.rng.Intn(len(interestVals))])
	default:
		n := g.rng.Intn(4)
		for i := 0; i < n; i++ {
			b.WriteString(strPieces[g.rng.Intn(len(strPieces))])
		}
	}
	b.WriteByte('"')
	return b.String()
}

func (g *jsonGen) key() string {
	if g.rng.Intn(3) == 0 {
		return `"` + interestKeys[g.rng.Intn(len(interestKeys))] + `"`
	}
	return g.str()
}

var numbers = []string{"0", "-0", "7", "12", "-3", "1.5", "0.0", "-0.25", "1e5", "1E5", "1e+5", "1E-5", "-1.25e-3", "12.0E+10", "9876543210", "0e0"}

func (g *jsonGen) scalar() string {
	switch g.rng.Intn(6) {
	case 0:
		return "true"
	case 1:
		return "false"
	case 2:
		return "null"
	case 3:
		return numbers[g.rng.Intn(len(numbers))]
	default:
		return g.str()
	}
}

func (g *jsonGen) value(depth int) string {
	if depth <= 0 || g.rng.Intn(3) == 0 {
		return g.scalar()
	}
	if g.rng.Intn(2) == 0 {
		return g.array(depth)
	}
	return g.object(depth)
}

func (g *jsonGen) array(depth int) string {
	n := g.rng.Intn(4)
	var b strings.Builder
	b.WriteByte('[')
	for i := 0; i < n; i++ {
		if i > 0 {
			b.WriteByte(',')
		}
		b.WriteString(g.ws())
		b.WriteString(g.value(depth - 1))
		b.WriteString(g.ws())
	}
	if n == 0 {
		b.WriteString(g.ws())
	}
	b.WriteByte(']')
	return b.String()
}

func (g *jsonGen) member(depth int) string {
	return g.ws() + g.key() + g.ws() + ":" + g.ws() + g.value(depth-1) + g.ws()
}

func (g *jsonGen) object(depth int) string {
	n := g.rng.Intn(4)
	var b strings.Builder
	b.WriteByte('{')
	for i := 0; i < n; i++ {
		if i > 0 {
			b.WriteByte(',')
		}
		b.WriteString(g.member(depth))
	}
	if n == 0 {
		b.WriteString(g.ws())
	}
	b.WriteByte('}')
	return b.String()
}

// doc returns a top-level object or array.
func (g *jsonGen) doc() string {
	g.layout = g.rng.Intn(5)
	lead := []string{"", "", "", " ", "\n", "\r\n\t "}[g.rng.Intn(6)]
	trail := []string{"", "", "\n", " \r\n"}[g.rng.Intn(4)]
	d := 1 + g.rng.Intn(4)
	if g.rng.Intn(3) == 0 {
		return lead + g.array(d) + trail
	}
	return lead + g.object(d) + trail
}

// subtypeDoc returns a top-level object with sibling members of every shape and, at a
// random position, a member that decides (or nearly decides) a JSON sub-type.
func (g *jsonGen) subtypeDoc() string {
	g.layout = g.rng.Intn(5)
	deciders := []string{
		`"type":"Feature"`, `"type":"FeatureCollection"`, `"type":"Point"`, `"type":"GeometryCollection"`,
		`"type":"MultiLineString"`, `"type" : "Polygon"`, `"type":"feature"`, `"type":["Feature"]`, `"type":{"type":"Feature"}`,
		`"log":{"version":"1.2"}`, `"log":{"creator":{"name":"x"}}`, `"log":{"entries":[]}`, `"log":{"entries":[{"a":1}],"x":2}`,
		`"log":{"x":1,"version":2}`, `"log":[{"version":1}]`, `"log":{"Version":1}`, `"log":{"x":{"version":1}}`,
		`"asset":{"version":"2.0"}`, `"asset":{"version":"1.0"}`, `"asset":{"generator":"g","version":"2.0"}`,
		`"asset":{"version":"3.0"}`, `"asset":{"version":2.0}`, `"asset":{"x":{"version":"2.0"}}`, `"asset":[{"version":"2.0"}]`,
		`"x":{"type":"Feature"}`, `"x":[{"type":"Feature"}]`, `"x":{"log":{"version":1}}`, `"x":{"asset":{"version":"2.0"}}`,
	}
	siblings := []string{
		`"a":1`, `"b":"s"`, `"c":[]`, `"d":[1]`, `"e":[1,2,[3]]`, `"f":{}`, `"g":{"type":"x"}`, `"h":[{"type":"Feature"}]`,
		`"i":null`, `"j":true`, `"k":{"log":{"version":1}}`, `"l":[[],[{}]]`, `"m":"Feature"`, `"version":"2.0"`,
		`"accessors":[1]`, `"scenes":[{"nodes":[0]}]`, `"features":[]`, `"features":[{"type":"Feature","geometry":null}]`,
		`"n":{"a":{"b":{"c":[1,{"d":2}]}}}`, `"o":-1.5e3`,
		// numbers that a scanner may leave half-read at a cut, as NON-first elements
		`"coordinates":[[102.5,-0.5],[1e3,-2.25E-2],[0,-1]]`, `"d2":[0,-1.5e-3,2E+5,-7]`, `"hash":"C#"`, `"esc":"a]\\b#"`,
		// strings and keys ending in an escaped backslash (the closing quote follows a backslash byte)
		`"p":"C:\\data\\"`, `"q":"\\"`, `"r":"x\\\\"`, `"s":"\\\""`, `"t\\":1`, `"u":["\\",{"v":"\\"}]`,
		// siblings nested deeper than any fixed small path buffer
		`"nest":` + strings.Repeat("[", 24) + strings.Repeat("]", 24), `"deep":` + strings.Repeat(`{"a":`, 20) + "1" + strings.Repeat("}", 20),
		`"mix":` + strings.Repeat(`[{"b":`, 12) + "null" + strings.Repeat("}]", 12),
	}
	n := g.rng.Intn(4)
	var parts []string
	for i := 0; i < n; i++ {
		parts = append(parts, siblings[g.rng.Intn(len(siblings))])
	}
	nd := 1
	if g.rng.Intn(5) == 0 {
		nd = 2
	}
	for i := 0; i < nd; i++ {
		pos := g.rng.Intn(len(parts) + 1)
		d := deciders[g.rng.Intn(len(deciders))]
		parts = append(parts[:pos], append([]string{d}, parts[pos:]...)...)
	}
	var b strings.Builder
	b.WriteString([]string{"", " ", "\n"}[g.rng.Intn(3)])
	b.WriteByte('{')
	for i, p := range parts {
		if i > 0 {
			b.WriteByte(',')
		}
		b.WriteString(g.ws())
		b.WriteString(p)
		b.WriteString(g.ws())
	}
	b.WriteByte('}')
	return b.String()
}

// mutate damages a valid document at one place (for C09 beyond the exhaustive bound).
func (g *jsonGen) mutate(doc string) string {
	if len(doc) == 0 {
		return doc
	}
	b := []byte(doc)
	i := g.rng.Intn(len(b))
	switch g.rng.Intn(10) {
	case 7, 8: // a byte that is blank for HTML / XML but not for JSON, before the opening bracket
		return []string{"\f", " \f\n", "\f ", "\x1b", "\n\f"}[g.rng.Intn(5)] + doc
	case 9: // ... or behind the closing one
		return doc + []string{"\f", " \f", "\x1b\n"}[g.rng.Intn(3)]
	case 6: // insert a run of control bytes that are not JSON whitespace (form feed, escape)
		run := make([]byte, 8+g.rng.Intn(12))
		for k := range run {
			run[k] = "\f\x1b"[g.rng.Intn(2)]
		}
		return string(append(b[:i:i], append(run, b[i:]...)...))
	case 0: // delete a byte
		return string(append(b[:i:i], b[i+1:]...))
	case 1: // duplicate a byte
		return string(append(b[:i+1:i+1], b[i:]...))
	case 2: // replace with a structural byte
		b[i] = "[]{},:\""[g.rng.Intn(7)]
		return string(b)
	case 3: // swap two adjacent bytes
		if i+1 < len(b) {
			b[i], b[i+1] = b[i+1], b[i]
		}
		return string(b)
	case 4: // insert a structural byte
		c := "[]{},:\""[g.rng.Intn(7)]
		return string(append(b[:i:i], append([]byte{c}, b[i:]...)...))
	default: // append garbage
		return doc + []string{"]", "}", ",", "x", "[", "{}", " 1"}[g.rng.Intn(7)]
	}
}
