package main

import (
	"flag"
	"fmt"
	"strings"
	"sync"
	"time"

	"github.com/gabriel-vasile/mimetype"
)

// coldstart (C06): the very first detections of a fresh process happen concurrently (no
// sequential warm-up that could fill lazily built caches), also below nodes just added with
// Extend. Every result must carry the complete chain that the static tree prescribes.

func init() { cmds["coldstart"] = coldstartMain }

func expectedChain(leafMime, leafExt string) []string {
	n := findNode(leafMime, leafExt)
	var out []string
	for _, t := range mimetype.VerifTree() {
		if t.M == n {
			for m := t.M; m != nil; {
				out = append(out, m.String())
				var parent *mimetype.MIME
				for _, u := range mimetype.VerifTree() {
					if u.M == m {
						parent = u.Parent
					}
				}
				m = parent
			}
		}
	}
	return out
}

func coldstartMain(args []string) int {
	fs := flag.NewFlagSet("coldstart", flag.ExitOnError)
	out := fs.String("out", "", "report")
	gor := fs.Int("goroutines", 8, "goroutines")
	firstExtend := fs.Bool("first-extend", false, "start with the first Extend of the process racing with detections")
	fs.Parse(args)
	rep := newReport("coldstart")
	type sample struct {
		in        []byte
		mime, ext string
	}
	samples := []sample{
		{[]byte(`{"type":"Feature","geometry":null}`), "application/geo+json", ".geojson"},
		{[]byte(`<?xml version="1.0"?><rss version="2.0"></rss>`), "application/rss+xml", ".rss"},
		{[]byte("<!DOCTYPE html><html><body>x</body></html>"), "text/html", ".html"},
		{[]byte("a,b\n1,2\n3,4\n"), "text/csv", ".csv"},
		{[]byte("\x00\x00\x00\x18ftypheic\x00\x00\x00\x00mif1heic"), "image/heic", ".heic"},
	}
	// expected chains from the static structure of the tree (no detection involved)
	exp := make([][]string, len(samples))
	for i, s := range samples {
		exp[i] = expectedChain(s.mime, s.ext)
		if len(exp[i]) < 2 {
			fmt.Println("node not found", s.mime)
			return 2
		}
	}
	var mu sync.Mutex
	var calls int64
	bad := func(kind, text, detail string) {
		mu.Lock()
		rep.NViol["C06"]++
		if len(rep.Violations) < 20 {
			rep.Violations = append(rep.Violations, Violation{Property: "C06", Kind: kind, Text: text, Detail: detail, Key: "C06|" + kind + "|" + text})
		}
		mu.Unlock()
	}
	burst := func(in []byte, want []string, what string) {
		var wg sync.WaitGroup
		start := make(chan struct{})
		for g := 0; g < *gor; g++ {
			wg.Add(1)
			go func() {
				defer wg.Done()
				<-start
				m := mimetype.Detect(in)
				got := chain(m)
				for i := range got {
					got[i] = baseType(got[i])
				}
				mu.Lock()
				calls++
				mu.Unlock()
				if strings.Join(got, ">") != strings.Join(want, ">") {
					bad("cold-chain", what, fmt.Sprintf("chain %v, the tree prescribes %v", got, want))
				}
			}()
		}
		close(start)
		wg.Wait()
	}
	if *firstExtend {
		// the FIRST Extend of the process while detections are in flight (nothing was registered before)
		var wg sync.WaitGroup
		start := make(chan struct{})
		stop := make(chan struct{})
		for g := 0; g < *gor; g++ {
			wg.Add(1)
			go func(g int) {
				defer wg.Done()
				<-start
				for k := 0; ; k++ {
					select {
					case <-stop:
						return
					default:
					}
					s := samples[(g+k)%len(samples)]
					m := mimetype.Detect(s.in)
					got := chain(m)
					for i := range got {
						got[i] = baseType(got[i])
					}
					mu.Lock()
					calls++
					mu.Unlock()
					if want := exp[(g+k)%len(samples)]; strings.Join(got, ">") != strings.Join(want, ">") {
						bad("chain-during-first-extend", s.mime, fmt.Sprintf("chain %v, the tree prescribes %v", got, want))
					}
				}
			}(g)
		}
		close(start)
		time.Sleep(2 * time.Millisecond)
		mimetype.Extend(func(raw []byte, _ uint32) bool { return false }, "x-cold/first", ".first")
		time.Sleep(2 * time.Millisecond)
		close(stop)
		wg.Wait()
		if mimetype.Lookup("x-cold/first") == nil {
			bad("first-extend-lost", "x-cold/first", "Lookup after the first Extend returns nil")
		}
	}
	for i, s := range samples {
		burst(s.in, exp[i], s.mime)
	}
	// below freshly registered extensions (nested 6 deep under text/plain)
	parent := findNode("text/plain", ".txt")
	want := []string{"text/plain", "application/octet-stream"}
	for k := 0; k < 6; k++ {
		name := fmt.Sprintf("x-cold/level%d", k)
		parent.Extend(func(raw []byte, _ uint32) bool { return len(raw) > 4 && string(raw[:5]) == "COLD!" }, name, ".cold")
		parent = mimetype.Lookup(name)
		want = append([]string{name}, want...)
	}
	burst([]byte("COLD! start"), want, "nested extensions")
	mimetype.VerifResetTree()
	rep.Evaluations = calls
	rep.Nontrivial = calls
	rep.write(*out)
	return 0
}
